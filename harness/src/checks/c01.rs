//! C01 — compiled stories play exactly as the Ink language defines.
//! E-enum + refint: every program of the generated families up to the tier's bound is compiled by
//! the repository's compiler, played through the real `Story` along EVERY choice path up to the
//! depth bound, and compared step by step with the independent source-level reference
//! interpreter: line text, per-line tags, globals and knot/stitch visit counts visible after every
//! line (this decides "effects after a line end happen exactly once however far the engine looked
//! ahead"), offered choices and end-of-story status.
use super::{Tier, finish};
use crate::{
    ink::{
        ast::Program,
        inkgen,
        refint::{self, State, TurnOut, Vm},
    },
    inst::{Inst, Op, Setup, render_vt},
    prog::{CompileOutcome, Prog},
    report::{RunCtl, Stats, Violation, par_cases},
};
use serde_json::{Value, json};
use std::rc::Rc;

pub const ID: &str = "C01";

#[derive(Debug, Clone, PartialEq)]
struct EngineLine {
    text: String,
    tags: Vec<String>,
    globals: Vec<(String, String)>,
    counts: Vec<(String, i32)>,
}

struct EngineTurn {
    lines: Vec<EngineLine>,
    choices: Vec<String>,
    ended: bool,
    problem: Option<String>,
}

/// replay `path` (choice indices) on a fresh engine instance, then play one more turn observing
/// the host-visible state after every line
fn engine_turn(prog: &Rc<Prog>, setup: &Setup, path: &[usize], globals: &[String], counts: &[String]) -> Option<EngineTurn> {
    let mut inst = Inst::new(prog, setup).ok()?;
    for &c in path {
        loop {
            let o = inst.observe(false);
            if o["can_continue"] != true {
                break;
            }
            inst.apply(&Op::Cont);
            if inst.dead.is_some() || inst.fuel_exhausted {
                return None;
            }
        }
        let r = inst.apply(&Op::Choose(c));
        if r != "ok" {
            return Some(EngineTurn { lines: vec![], choices: vec![], ended: false, problem: Some(format!("choose({c}) -> {r}")) });
        }
    }
    let mut lines = vec![];
    let mut problem = None;
    loop {
        let story = inst.story.as_mut()?;
        if !story.can_continue() {
            break;
        }
        let r = inst.apply(&Op::Cont);
        if inst.fuel_exhausted {
            return None;
        }
        if !r.starts_with("ok:") {
            problem = Some(format!("cont -> {r}"));
            break;
        }
        let story = inst.story.as_mut()?;
        let text = story.get_current_text().unwrap_or_default();
        let tags = story.get_current_tags().unwrap_or_default();
        let g: Vec<(String, String)> = globals.iter().map(|n| (n.clone(), story.get_variable(n).map(|v| render_vt(&v)).unwrap_or_else(|| "None".into()))).collect();
        let c: Vec<(String, i32)> = counts.iter().map(|n| (n.clone(), story.get_visit_count_at_path_string(n).unwrap_or(-1))).collect();
        if text.trim().is_empty() && tags.is_empty() {
            // K0: a turn without text delivers one empty line; the reference toolchain itself
            // produces whitespace-only lines in places (calibration: conditional/stopping), and
            // the repository's own tests skip them, so they are not compared
            continue;
        }
        lines.push(EngineLine { text, tags, globals: g, counts: c });
    }
    let story = inst.story.as_mut()?;
    let choices: Vec<String> = story.get_current_choices().iter().map(|c| c.text.clone()).collect();
    let ended = !story.can_continue() && choices.is_empty();
    if problem.is_none() && story.has_error() {
        problem = Some(format!("errors: {:?}", story.get_current_errors()));
    }
    Some(EngineTurn { lines, choices, ended, problem })
}

fn compare(e: &EngineTurn, r: &TurnOut) -> Option<(String, String)> {
    if let Some(p) = &e.problem {
        return Some(("engine-error".into(), format!("the engine reports {p}; the reference plays on")));
    }
    let n = e.lines.len().min(r.lines.len());
    for i in 0..n {
        let (a, b) = (&e.lines[i], &r.lines[i]);
        if a.text != b.text {
            return Some(("line-text".into(), format!("line {i}: engine {:?}, Ink rules {:?}", a.text, b.text)));
        }
        if a.tags != b.tags {
            return Some(("line-tags".into(), format!("line {i} ({:?}): engine tags {:?}, Ink rules {:?}", a.text, a.tags, b.tags)));
        }
        for (name, val) in &a.globals {
            let want = b.state.globals.get(name).cloned().unwrap_or_default();
            if *val != want {
                return Some((format!("state-after-line/global"), format!("after line {i} ({:?}) the host sees {name} = {val}; by the Ink rules (T6) it is {want}", a.text)));
            }
        }
        for (name, val) in &a.counts {
            let want = *b.state.counts.get(name).unwrap_or(&0);
            if *val != want {
                return Some((format!("state-after-line/visit-count"), format!("after line {i} ({:?}) the visit count of {name} is {val}; by the Ink rules (K1) it is {want}", a.text)));
            }
        }
    }
    if e.lines.len() != r.lines.len() {
        let extra: Vec<String> = if e.lines.len() > n { e.lines[n..].iter().map(|l| l.text.clone()).collect() } else { r.lines[n..].iter().map(|l| l.text.clone()).collect() };
        return Some(("line-count".into(), format!("engine delivers {} line(s), Ink rules give {}: extra on the {} side: {:?}", e.lines.len(), r.lines.len(), if e.lines.len() > n { "engine" } else { "reference" }, extra)));
    }
    if e.choices != r.choices {
        return Some(("choices".into(), format!("engine offers {:?}, Ink rules give {:?}", e.choices, r.choices)));
    }
    if e.ended != r.ended {
        return Some(("end-status".into(), format!("engine ended={}, Ink rules ended={}", e.ended, r.ended)));
    }
    None
}

#[derive(Default)]
pub struct Judged {
    /// host calls executed on the engine (continues + choices) over all paths
    pub transitions: u64,
    /// hash of (program, what the reference shows at a stop) for every stop reached
    pub state_hashes: Vec<u64>,
    pub paths: u64,
    pub no_verdict: Option<String>,
    pub violation: Option<(String, String, Vec<usize>)>,
    pub transcript_hash: u64,
    pub max_choices: usize,
}

pub fn judge_program(name: &str, ast: &Program, depth: usize) -> Judged {
    judge_source(name, &ast.render(), ast, depth)
}

/// the source text a family gives the compiler for an AST: the plain rendering, or (families whose
/// name ends in "flat") the same text without any indentation — Ink reads nesting from the
/// markers, never from the indentation
pub fn source_of(fam: &str, ast: &Program) -> String {
    let src = ast.render();
    if fam.ends_with("flat") {
        src.lines().map(|l| l.trim_start()).collect::<Vec<_>>().join("\n") + "\n"
    } else if fam.ends_with("tight") {
        // blanks that Ink does not need: `-else:` is the same branch marker as `- else:`
        src.replace("- else:", "-else:")
    } else {
        src
    }
}

pub fn judge_source(name: &str, src: &str, ast: &Program, depth: usize) -> Judged {
    let src = src.to_string();
    let mut j = Judged::default();
    let prog = match Prog::from_source(name, &src) {
        CompileOutcome::Ok(p) => p,
        CompileOutcome::Rejected(e) => {
            j.no_verdict = Some(format!("rejected by the compiler: {e}"));
            return j;
        }
        CompileOutcome::Panicked(e) => {
            j.no_verdict = Some(format!("compiler panic: {e}"));
            return j;
        }
    };
    judge_with(&prog, ast, depth, true, j)
}

/// the comparison itself, for a story document that is already loaded (generated programs: this
/// compiler's output; calibration: the reference compiler's JSON of a hand-transcribed story)
pub fn judge_with(prog: &Rc<Prog>, ast: &Program, depth: usize, observe_counts: bool, mut j: Judged) -> Judged {
    let c = refint::compile(ast);
    let globals: Vec<String> = ast.globals.iter().map(|g| g.0.clone()).collect();
    let mut counts: Vec<String> = vec![];
    for k in &ast.knots {
        if !k.is_function && observe_counts {
            counts.push(k.name.clone());
            for (s, _) in &k.stitches {
                counts.push(format!("{}.{s}", k.name));
            }
        }
    }
    let vm = Vm::new(&c, globals.clone(), counts.clone());
    let setup = Setup { bind_externals: None, allow_fallbacks: false, handler: false, observers: vec![], seed: None };
    // depth-first over choice paths; reference states are values, the engine is rebuilt per path
    let mut stack: Vec<(Vec<usize>, State)> = vec![(vec![], vm.initial())];
    let mut transcript = String::new();
    while let Some((path, mut st)) = stack.pop() {
        let r = vm.run_turn(&mut st);
        if let Some(e) = &r.error {
            j.no_verdict = Some(format!("outside the supported core (reference: {e})"));
            return j;
        }
        let Some(e) = engine_turn(&prog, &setup, &path, &globals, &counts) else {
            j.no_verdict = Some("engine fuel exhausted".into());
            return j;
        };
        j.paths += 1;
        j.max_choices = j.max_choices.max(r.choices.len());
        transcript.push_str(&format!("{:?}|{:?}|{:?};", path, r.lines.iter().map(|l| &l.text).collect::<Vec<_>>(), r.choices));
        j.transitions += (path.len() + e.lines.len()) as u64;
        j.state_hashes.push(crate::report::hash_str(&format!("{}|{:?}|{:?}|{:?}", prog.name, r.lines.iter().map(|l| (&l.text, &l.state)).collect::<Vec<_>>(), r.choices, r.ended)));
        if let Some((aspect, what)) = compare(&e, &r) {
            j.violation = Some((aspect, what, path));
            return j;
        }
        if path.len() < depth {
            for i in (0..r.choices.len()).rev() {
                let mut s2 = st.clone();
                if vm.choose(&mut s2, i) {
                    let mut p2 = path.clone();
                    p2.push(i);
                    stack.push((p2, s2));
                }
            }
        }
    }
    j.transcript_hash = crate::report::hash_str(&transcript);
    j
}

/// Calibration of the reference interpreter against the REFERENCE toolchain: corpus stories
/// transcribed by hand into the harness AST are run through refint and compared, along every
/// choice path, with the reference-compiled JSON of the same story played on the engine. A
/// disagreement means a rule of RULES.md (or a transcription) is wrong: the check then refuses to
/// judge anything (machinery error), because its verdicts would not be worth believing.
pub fn calibrate() -> (usize, u64, Vec<String>) {
    let mut failures = vec![];
    let mut paths = 0;
    let cal: Vec<(&'static str, Program)> = inkgen::calibration().into_iter().filter(|(rel, _)| !rel.starts_with("nojson:")).collect();
    for (rel, ast) in &cal {
        let file = format!("/repo/conformance-tests/inkfiles/{rel}");
        let Ok(text) = std::fs::read_to_string(&file) else {
            failures.push(format!("{rel}: cannot read {file}"));
            continue;
        };
        let prog = Rc::new(Prog::from_json(rel, text.trim_start_matches('\u{feff}')));
        // (divert-choice runs out of choices and content two choices deep: a story error by design)
        let depth = if rel.contains("divert-choice") { 1 } else { 6 };
        let j = judge_with(&prog, ast, depth, false, Judged::default());
        paths += j.paths;
        if let Some(nv) = j.no_verdict {
            failures.push(format!("{rel}: no verdict: {nv}"));
        }
        if let Some((aspect, what, path)) = j.violation {
            failures.push(format!("{rel}: {aspect}: {what} at choice path {path:?}"));
        }
    }
    (cal.len(), paths, failures)
}

pub fn family_nth(fam: &str, k: usize, a: usize, i: usize) -> (String, Program) {
    match fam {
        "loop" => inkgen::loop_nth(k, a, i),
        "stitch" => inkgen::stitch_nth(k, a, i),
        "shape" | "shapeflat" => inkgen::shape_nth(k, i),
        "segtight" => inkgen::seg_nth(k, a, i),
        "quirk" => inkgen::quirk_nth(i),
        "shaperoot" => inkgen::shape_root_nth(k, i),
        _ => inkgen::seg_nth(k, a, i),
    }
}

pub fn run(tier: Tier) -> i32 {
    let started = std::time::Instant::now();
    let (cal_n, cal_paths, cal_fail) = calibrate();
    if !cal_fail.is_empty() {
        for f in &cal_fail {
            println!("MACHINERY-ERROR property={ID} reference interpreter fails calibration against the reference toolchain: {f}");
        }
        return 2;
    }
    let a = inkgen::ITEM_NAMES.len();
    let (fams, depth, secs): (Vec<(&str, usize)>, usize, u64) = match tier {
        Tier::Quick => (vec![("seg", 1), ("seg", 2), ("loop", 1), ("loop", 2), ("stitch", 1), ("shape", 1), ("shape", 2), ("shapeflat", 1), ("shaperoot", 1), ("segtight", 1), ("quirk", 1)], 4, 55),
        Tier::Thorough => (vec![("seg", 1), ("seg", 2), ("seg", 3), ("loop", 1), ("loop", 2), ("stitch", 1), ("stitch", 2), ("shape", 1), ("shape", 2), ("shapeflat", 1), ("shapeflat", 2), ("shaperoot", 1), ("shaperoot", 2), ("segtight", 1), ("segtight", 2), ("quirk", 1)], 5, 2400),
    };
    let counts: Vec<usize> = fams.iter().map(|(f, k)| if *f == "quirk" { inkgen::quirk_count() } else if f.starts_with("shape") { inkgen::shape_count(*k) } else { inkgen::seg_count(*k, a) }).collect();
    let n: usize = counts.iter().sum();
    let locate = |mut i: usize| -> (&str, usize, usize) {
        for (fi, c) in counts.iter().enumerate() {
            if i < *c {
                return (fams[fi].0, fams[fi].1, i);
            }
            i -= c;
        }
        (fams[0].0, fams[0].1, 0)
    };
    let ctl = RunCtl::new(secs);
    let (mut stats, done) = par_cases(n, &ctl, |i, st| {
        let (fam, k, li) = locate(i);
        let (name, ast) = family_nth(fam, k, a, li);
        st.inc(&format!("programs::{fam}{k}"));
        let src = source_of(fam, &ast);
        let name = if fam == "shapeflat" || fam == "shaperoot" { name.replacen("shape", fam, 1) } else if fam == "segtight" { name.replacen("gen", "tight", 1) } else { name };
        let j = judge_source(&name, &src, &ast, depth);
        st.inc("programs");
        st.add("paths", j.paths);
        st.add("transitions", j.transitions);
        for h in &j.state_hashes {
            st.see("states", &h.to_string());
        }
        st.max("max::choices_at_a_stop", j.max_choices as u64);
        // (not the stitch family: it cuts a slot item in two, and a bare label reference that
        // crosses the cut is not certainly valid Ink)
        if let Some(nv) = &j.no_verdict
            && let Some(why) = nv.strip_prefix("rejected by the compiler: ")
            && fam != "stitch"
        {
            // the generated programs are valid Ink by construction (and inside the calibrated
            // core): one the compiler refuses cannot be played by Ink's rules at all
            st.inc("rejected_by_compiler");
            st.violation(Violation {
                property: ID.into(),
                class: format!("{ID}/rejected/{name}"),
                what: format!("the compiler refuses a valid program: {why} [program {name}]"),
                artefact: json!({"check": "c01", "family": fam, "k": k, "a": a, "index": li, "program": name, "source": src, "path": [], "aspect": "rejected"}),
            });
            return;
        }
        if let Some(nv) = &j.no_verdict {
            st.inc("no_verdict");
            let kind = nv.split(':').next().unwrap_or("").to_string();
            st.inc(&format!("no_verdict::{kind}"));
            if st.notes.len() < 5 {
                st.notes.push(format!("{name}: {nv}"));
            }
            return;
        }
        st.see("transcripts", &j.transcript_hash.to_string());
        if j.max_choices > 0 {
            st.inc("programs_with_choices");
        }
        if let Some((aspect, what, path)) = j.violation {
            // class: the aspect + the slot items of the program (the family index is in the name)
            st.violation(Violation {
                property: ID.into(),
                class: format!("{ID}/model/{aspect}/{name}"),
                what: format!("{what} [program {name}, choice path {path:?}]"),
                artefact: json!({"check": "c01", "family": fam, "k": k, "a": a, "index": li, "program": name, "source": src, "path": path, "aspect": aspect}),
            });
        }
    });
    stats.notes.sort();
    stats.notes.dedup();
    let (n0, a0) = family_nth("loop", 1, a, 17);
    stats.sample(json!({"program": n0, "source": a0.render()}));
    let exhaustive = done == n;
    let extra = vec![
        ("evaluations", json!(stats.get("paths"))),
        ("distinct_nontrivial", json!(stats.n_distinct("transcripts"))),
        ("rule", json!("program = segment family (k slots over the item alphabet) rendered to Ink source; evaluation = one (program, choice path) turn compared line by line; non-trivial = compiled, inside the supported core, produced output; distinct = distinct full reference transcripts")),
        ("states", json!(stats.n_distinct("states").max(1))),
        ("transitions", json!(stats.get("transitions").max(1))),
        ("traces_validated_against_impl", json!(stats.get("paths"))),
        ("exhaustive", json!(exhaustive)),
        ("calibration", json!({"corpus_stories_transcribed": cal_n, "choice_paths_compared_with_reference_compiled_json": cal_paths, "disagreements": 0})),
        ("bounds", json!({"families": fams.iter().map(|(f, k)| format!("{f}:{k} slots")).collect::<Vec<_>>(), "alphabet": inkgen::ITEM_NAMES, "programs": n, "programs_done": done, "choice_depth": depth})),
        ("caps_hit", json!(if exhaustive { vec![] } else { vec![format!("wall cap {secs}s: {done}/{n} programs")] })),
    ];
    finish(
        ID,
        tier,
        "model_checking",
        &stats,
        extra,
        vec![
            "the reference interpreter (harness/src/ink/refint.rs) implements the rules listed in harness/src/ink/RULES.md; constructs without a rule are not generated".into(),
            "programs the compiler rejects, programs that exhaust the step fuel and programs on which the reference itself reports a story error give no verdict (counted)".into(),
        ],
        started,
    )
}

pub fn replay(art: &Value) -> String {
    let (k, a, i) = (art["k"].as_u64().unwrap_or(1) as usize, art["a"].as_u64().unwrap_or(1) as usize, art["index"].as_u64().unwrap_or(0) as usize);
    let fam = art["family"].as_str().unwrap_or("seg");
    let (name, ast) = family_nth(fam, k, a, i);
    let j = judge_source(&name, &source_of(fam, &ast), &ast, 5);
    match (j.violation, j.no_verdict) {
        (Some((aspect, what, path)), _) => format!("{name}: {aspect}: {what} at {path:?}"),
        (None, Some(nv)) => format!("{name}: no verdict: {nv}"),
        (None, None) => format!("{name}: agrees with the reference on {} paths", j.paths),
    }
}
