//! C02 — saving and loading a game preserves all future behaviour.
//! E-hx lockstep: at every node of the history tree (play + flow switches + path jumps),
//! A = history, B = history + LoadFresh (new Story + load_state(own save)), C = history + LoadInto.
//! Immediate observation (incl. canonical re-save) and all continuations up to the depth bound
//! must be equal. Never merged.
use super::{Tier, common::*, finish};
use crate::{
    hx::Mismatch,
    inst::{Op, Setup},
    prog::Prog,
    report::{RunCtl, par_cases},
};
use serde_json::{Value, json};

pub const ID: &str = "C02";

fn pairs(_p: &Prog, prefix: &[Op], obs: &Value) -> Vec<Pair> {
    let mut v = vec![];
    // A story that has reported an unhandled error is stopped until it is reset (C13); the
    // property's save points are "after any completed line, at any choice point, at the end, in
    // any flow" of a running story. Errors are deliberately not part of a save (as in the
    // reference engine), so error states are not save points here.
    if obs["errors"].as_array().map(|a| !a.is_empty()).unwrap_or(false) {
        return v;
    }
    for (kind, op) in [("fresh", Op::LoadFresh), ("into", Op::LoadInto)] {
        let mut a = prefix.to_vec();
        a.push(op);
        v.push(Pair { kind: kind.into(), hist_a: a, hist_b: prefix.to_vec(), norm: String::new(), injected: 1 });
    }
    // a save taken from a story that was itself loaded, one operation later, with nothing in
    // between that could re-synchronise the stored flows (q + [load, x, load] vs q + [x])
    if let Some((x, q)) = prefix.split_last()
        && !matches!(x, Op::SwitchFlow(_) | Op::SwitchDefault | Op::RemoveFlow(_))
    {
        let mut a = q.to_vec();
        a.push(Op::LoadFresh);
        a.push(x.clone());
        a.push(Op::LoadFresh);
        v.push(Pair { kind: "fresh-twice".into(), hist_a: a, hist_b: prefix.to_vec(), norm: String::new(), injected: 1 });
    }
    v
}

fn judge(pair: &Pair, rs: &[String]) -> Option<(String, String)> {
    let r = &rs[0];
    if r == "ok" {
        None
    } else if let Some(p) = r.strip_prefix("panic:") {
        Some((format!("panic/{}/{}", pair.kind, p), format!("save+load ({}) panicked: {r}", pair.kind)))
    } else {
        Some((format!("load-refused/{}/{}", pair.kind, r), format!("loading the story's own save ({}) returned {r}", pair.kind)))
    }
}

fn class(pair: &Pair, m: &Mismatch, obs: &Value) -> String {
    let top = m.field.split('.').next().unwrap_or("");
    let sub = if top == "save" { m.field.split('.').nth(1).unwrap_or("") } else { "" };
    let when = if m.suffix.is_empty() { "immediate" } else { "later" };
    format!("trace/{}/{}/{}{}/{}", pair.kind, when, top, if sub.is_empty() { String::new() } else { format!(".{sub}") }, save_signature(&obs["save"]))
}

pub fn setup() -> Setup {
    Setup { bind_externals: Some(true), allow_fallbacks: true, handler: false, observers: vec![], seed: None }
}

pub fn run(tier: Tier) -> i32 {
    let started = std::time::Instant::now();
    let (h, d, k, a, corpus, secs) = match tier {
        Tier::Quick => (3, 3, 2, 11, 3000, 45),
        Tier::Thorough => (4, 4, 2, 16, 20_000, 2400),
    };
    let mut set = pause_programs();
    set.extend(program_set(k, a, corpus));
    let ctl = RunCtl::new(secs);
    let spec = PairSpec {
        id: ID,
        check: "c02",
        hist_depth: h,
        lock_depth: d,
        hist_sigma: "flows",
        lock_sigma: "play+switch",
        with_save: true,
        pairs: &pairs,
        judge: &judge,
        class: &class,
    };
    let su = setup();
    let (stats, done) = par_cases(set.len(), &ctl, |i, st| {
        if let Some(p) = set[i].load() {
            run_pairs(&p, &su, &spec, st);
            st.inc("programs");
        } else {
            st.inc("rejected_by_compiler");
        }
    });
    let extra = mc_extras(
        &stats,
        json!({"history_depth": h, "lockstep_depth": d, "segment_family": [k, a], "corpus_max_bytes": corpus, "programs": set.len(), "programs_done": done}),
        set.len(),
        done,
        secs,
    );
    finish(
        ID,
        tier,
        "model_checking",
        &stats,
        extra,
        vec![
            "state = history; B is a freshly constructed Story of the same program that loaded A's save".into(),
            "observation = public getters + canonical save (choice `index` cache dropped); observer-notification order across variables normalised".into(),
        ],
        started,
    )
}
