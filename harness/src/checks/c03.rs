//! C03 — play is a deterministic function of program, seed and host calls.
//! E-proc + E-enum: every case (program x all choice paths, full observation incl. canonical
//! save) is executed under every configuration: entropy values 0..E through the getrandom shim
//! (hash-map keys and rand::rng() are then a pure function of VERIF_ENTROPY), two in-process
//! repeats (fresh maps get fresh keys), separate processes, and the debug build. All transcripts of
//! a case must be identical; the compiler's output must be byte-identical. Two processes with the
//! SAME entropy differing is a machinery error (unowned nondeterminism), not a verdict. What the
//! entropy values reached is measured: the iteration orders of a probe HashMap over the tied item
//! names are recorded.
use super::{Tier, common::*, finish};
use crate::{
    hx::{self, sigma_play},
    inst::{Op, Setup},
    pool,
    prog::{CompileOutcome, Prog},
    report::{RunCtl, Stats, Violation, hash_str},
};
use serde_json::{Value, json};
use std::collections::{BTreeMap, BTreeSet, HashMap};

pub const ID: &str = "C03";

#[derive(Clone)]
pub struct Case {
    pub id: String,
    pub feature: String,
    pub source: Option<String>,
    pub corpus_json: Option<(String, String)>,
    /// host-call prefix (flows)
    pub flows: bool,
}

const LIST_HDR: &str = "LIST la = (a1), a2, a3\nLIST lb = (b1), b2\nLIST lc = c1, (c2)\nLIST ld = d1 = 1, d2 = 1, d3 = 2\nVAR m = ()\nVAR r = ()\n";

/// list values with equal item values in different lists
const LIST_VALUES: &[(&str, &str)] = &[
    ("a1+b1", "(a1, b1)"),
    ("a1+b1+c1", "(a1, b1, c1)"),
    ("a2+b2+c2", "(a2, b2, c2)"),
    ("all-ab", "LIST_ALL(la) + LIST_ALL(lb)"),
    ("all-abc", "LIST_ALL(la) + LIST_ALL(lb) + LIST_ALL(lc)"),
    ("dups-in-one-list", "LIST_ALL(ld)"),
    ("a1+a3+b2", "(a1, a3, b2)"),
];

const LIST_EXPRS: &[(&str, &str)] = &[
    ("print", "{m}"),
    ("LIST_MIN", "{LIST_MIN(m)}"),
    ("LIST_MAX", "{LIST_MAX(m)}"),
    ("LIST_RANDOM", "{LIST_RANDOM(m)} {LIST_RANDOM(m)} {LIST_RANDOM(m)}"),
    ("LIST_VALUE", "{LIST_VALUE(m)} {LIST_COUNT(m)}"),
    ("inc", "{m + 1} / {m - 1}"),
    ("LIST_ALL", "{LIST_ALL(m)}"),
    ("LIST_INVERT", "{LIST_INVERT(m)}"),
    ("LIST_RANGE", "{LIST_RANGE(m, 1, 2)} {LIST_RANGE(m, a1, b2)}"),
    ("from-int", "{la(1)} {lb(2)} {ld(1)} {ld(2)}"),
    ("compare", "{m > la} {m < lb} {m >= lc} {m == (a1, b1)} {m ? a1} {m !? b2}"),
    ("min-of-min", "{LIST_MIN(LIST_MIN(m) + c1)} {LIST_MAX(LIST_MAX(m) + c2)}"),
    ("assign-min", "~ r = LIST_MIN(m)\n{r} {LIST_VALUE(r)} {r == a1} {r == b1}"),
    ("assign-max-then-inc", "~ r = LIST_MAX(m)\n~ r++\n{r}"),
    ("min-in-choice", "* [{LIST_MIN(m)}] picked {LIST_MAX(m)}\n- done"),
];

pub fn cases(tier: Tier) -> Vec<Case> {
    let mut v = vec![];
    for (vn, val) in LIST_VALUES {
        for (en, ex) in LIST_EXPRS {
            v.push(Case {
                id: format!("list/{vn}/{en}"),
                feature: format!("list-ties/{en}"),
                source: Some(format!("{LIST_HDR}~ m = {val}\nStart.\n{ex}\nEnd.\n-> END\n")),
                corpus_json: None,
                flows: false,
            });
        }
    }
    // the same bare item name in two or three LISTs: which list a bare name denotes (compiler:
    // list literals; runtime: bare names read as variables, names in saves) must not depend on a
    // hash order
    let dup_hdr = "LIST lp = (same), p2, other\nLIST lq = q1, (same), other\nLIST lr = r1, r2, (same)\nVAR m = ()\nVAR r = ()\n";
    let dup: &[(&str, &str)] = &[
        ("bare-value", "{same} {LIST_VALUE(same)} {other} {LIST_VALUE(other)}"),
        ("literal", "~ m = (same)\n{m} {LIST_VALUE(m)} {LIST_ALL(m)}"),
        ("literal-two", "~ m = (same, other)\n{m} {LIST_VALUE(m)} {LIST_ALL(m)} {LIST_INVERT(m)}"),
        ("assign-bare", "~ r = same\n{r} {LIST_VALUE(r)} {r == lp.same} {r == lq.same} {r == lr.same}"),
        ("has", "{lp ? same} {lq ? same} {lr ? same} {lp !? other}"),
        ("add-remove", "~ m = lq\n~ m += other\n~ m -= same\n{m} {LIST_ALL(m)}"),
        ("qualified", "{lp.same} {lq.same} {lr.same} {LIST_VALUE(lr.same)}"),
        ("in-choice", "* [{same}] picked {other}\n- {LIST_ALL(same)}"),
    ];
    for (n, body) in dup {
        v.push(Case { id: format!("dup-item/{n}"), feature: "same-item-name-in-several-lists".into(), source: Some(format!("{dup_hdr}Start.\n{body}\nEnd.\n-> END\n")), corpus_json: None, flows: false });
    }
    // shuffles and randomness
    let rnd: &[(&str, &str)] = &[
        ("shuffle", "VAR i = 0\n-> l\n=== l ===\n~ i = i + 1\n{~a|b|c|d} {~x|y}\n{i < 9: -> l}\n-> END\n"),
        ("shuffle-once", "VAR i = 0\n-> l\n=== l ===\n~ i = i + 1\n{shuffle once:\n- one\n- two\n- three\n}\n{i < 5: -> l}\n-> END\n"),
        ("shuffle-stopping", "VAR i = 0\n-> l\n=== l ===\n~ i = i + 1\n{stopping shuffle:\n- one\n- two\n- last\n}\n{i < 5: -> l}\n-> END\n"),
        ("random", "VAR i = 0\n-> l\n=== l ===\n~ i = i + 1\n{RANDOM(1, 6)} {RANDOM(0, 100)}\n{i < 6: -> l}\n+ [seed]\n    ~ SEED_RANDOM(12)\n    ~ i = 3\n    -> l\n* [end] -> END\n"),
        ("many-globals", "VAR g01 = 1\nVAR g02 = 2\nVAR g03 = 3\nVAR g04 = 4\nVAR g05 = 5\nVAR g06 = 6\nVAR g07 = 7\nVAR g08 = 8\nVAR g09 = 9\nVAR g10 = 10\nVAR g11 = \"s\"\nVAR g12 = true\nVAR g13 = 1.5\nVAR g14 = -> k\nLIST g15 = (x1), x2\n~ g01 = g02 + g03\n~ g04 = g05 * g06\n{g01} {g04} {g15}\n* a\n    ~ g07 = 70\n    -> k\n* b\n    ~ g08 = 80\n    -> k\n=== k ===\n{g07} {g08} {g09}\n-> END\n"),
    ];
    for (n, s) in rnd {
        v.push(Case { id: format!("rnd/{n}"), feature: format!("random/{n}"), source: Some(s.to_string()), corpus_json: None, flows: false });
    }
    // self-seeding programs, played without the forced story seed
    let selfseed: &[(&str, &str)] = &[
        ("loop-then-choice", "VAR i = 0\n~ SEED_RANDOM(4242)\nFirst {RANDOM(1, 1000000)}.\n-> l\n=== l ===\n~ i = i + 1\nRoll {RANDOM(1, 6)} {~a|b|c|d}.\n{i < 3: -> l}\n* [more]\n    ~ i = 0\n    -> l\n* [stop] -> END\n"),
        ("glue", "~ SEED_RANDOM(7)\nLine one <>\n glued {RANDOM(1, 100)}.\nThen {RANDOM(1, 100)} {~x|y|z}.\n* [again]\n    Once more {RANDOM(1, 100)} {~x|y|z}.\n- Done {RANDOM(1, 100)}.\n-> END\n"),
        ("list-random", "LIST colours = (red), (green), (blue), (purple)\n~ SEED_RANDOM(99)\nPick {LIST_RANDOM(colours)}.\n* [pick again]\n    Pick {LIST_RANDOM(colours)} and {LIST_RANDOM(colours)}.\n- {shuffle:\n    - one\n    - two\n    - three\n}\n-> END\n"),
    ];
    for (n, s) in selfseed {
        v.push(Case { id: format!("selfseed/{n}"), feature: "self-seeded, runtime-drawn initial seed".into(), source: Some(s.to_string()), corpus_json: None, flows: false });
    }
    // seed values at the edges of i32 (negative, extreme): SEED_RANDOM(S) followed by every consumer
    // of the random state; and the same consumers under a negative *story* seed. Both build
    // profiles must play them alike (seed arithmetic that overflows only where checks are on).
    for (sn, sv) in [("m7", "0 - 7"), ("m1", "0 - 1"), ("zero", "0"), ("one", "1"), ("imax", "2147483647"), ("mimax", "0 - 2147483647"), ("imin", "(0 - 2147483647) - 1")] {
        let body = format!("LIST colours = (red), (green), (blue), (purple)\n~ SEED_RANDOM({sv})\nR {{RANDOM(1, 6)}} L {{LIST_RANDOM(colours)}} {{LIST_RANDOM(colours)}} S {{~a|b|c}} R {{RANDOM(0 - 5, 5)}} L {{LIST_RANDOM(colours)}}.\n* [again]\n    R {{RANDOM(1, 6)}} L {{LIST_RANDOM(colours)}} S {{~a|b|c}}.\n- {{shuffle:\n    - one\n    - two\n    - three\n}}\n-> END\n");
        v.push(Case { id: format!("rnd/seed-{sn}"), feature: "random/seed-edge".into(), source: Some(body), corpus_json: None, flows: false });
    }
    for (n, s) in rnd.iter().chain(selfseed.iter()) {
        v.push(Case { id: format!("negseed/{n}"), feature: "random/negative-story-seed".into(), source: Some(s.to_string()), corpus_json: None, flows: false });
    }
    // base pool (also with flows) and segment family
    for (n, s) in pool::base_sources() {
        v.push(Case { id: format!("base/{n}"), feature: "base-pool".into(), source: Some(s.to_string()), corpus_json: None, flows: false });
        v.push(Case { id: format!("base-flows/{n}"), feature: "base-pool-flows".into(), source: Some(s.to_string()), corpus_json: None, flows: true });
    }
    let (k, a) = match tier {
        Tier::Quick => (2, 8),
        Tier::Thorough => (2, 16),
    };
    for i in 0..pool::seg_count(k, a) {
        let (n, s) = pool::seg_nth(k, a, i);
        v.push(Case { id: format!("seg/{n}"), feature: "segment-family".into(), source: Some(s), corpus_json: None, flows: false });
    }
    // corpus: the repository's compiler on every source (compile determinism + play), and the
    // reference json
    let max = match tier {
        Tier::Quick => 6_000,
        Tier::Thorough => 60_000,
    };
    for (name, src, js) in pool::corpus_pairs() {
        let Ok(text) = std::fs::read_to_string(&src) else { continue };
        if text.len() > max || text.contains("INCLUDE") {
            continue;
        }
        v.push(Case { id: format!("corpus-src/{name}"), feature: "corpus-source".into(), source: Some(text), corpus_json: None, flows: false });
        v.push(Case { id: format!("corpus-json/{name}"), feature: "corpus-reference-json".into(), source: None, corpus_json: Some((js, src)), flows: false });
    }
    v
}

/// transcript of a case: all choice paths (bounded), every result and the full final observation
pub fn transcript(c: &Case) -> (String, String) {
    let (prog, compiled) = match (&c.source, &c.corpus_json) {
        (Some(s), _) => match Prog::from_source(&c.id, s) {
            CompileOutcome::Ok(p) => {
                let j = p.json.clone();
                (p, j)
            }
            CompileOutcome::Rejected(e) => return (format!("rejected:{e}"), String::new()),
            CompileOutcome::Panicked(e) => return (format!("compiler-panic:{e}"), String::new()),
        },
        (None, Some((j, s))) => match ProgSrc::CorpusJson(c.id.clone(), j.clone(), s.clone()).load() {
            Some(p) => (p, String::new()),
            None => return ("unreadable".into(), String::new()),
        },
        _ => return ("empty".into(), String::new()),
    };
    // programs that seed themselves (SEED_RANDOM as their first statement) are played WITHOUT the
    // forced story seed: the seed the runtime draws then comes from the entropy under test, and
    // must stop mattering as soon as the story has seeded itself (observed from the first
    // continue on)
    let selfseed = c.id.starts_with("selfseed/");
    let setup = Setup { bind_externals: Some(true), allow_fallbacks: true, handler: false, observers: vec![], seed: if selfseed { Some(crate::inst::NO_FORCED_SEED) } else if c.id.starts_with("negseed/") { Some(-2_147_483_000) } else { None } };
    let mut st = Stats::default();
    let flows = c.flows;
    let fsig = sigma_hist_flows(&prog);
    let sig = |o: &Value, h: &[Op]| if flows { fsig(o, h) } else { sigma_play(o) };
    let mut t = String::new();
    hx::explore(&prog, &setup, if flows { 5 } else { 7 }, &sig, true, &mut st, &mut |h, rs, o, _i, _s| {
        if selfseed && h.is_empty() {
            return true;
        }
        t.push_str(&format!("{:?}|{:?}|{};\n", h.last(), rs.last(), o));
        true
    });
    (t, compiled)
}

fn probe_order() -> String {
    // iteration order of a HashMap over the tied item names (measures what the entropy reached)
    let mut m: HashMap<String, i32> = HashMap::new();
    for k in ["a1", "b1", "c1"] {
        m.insert(k.to_string(), 1);
    }
    m.keys().cloned().collect::<Vec<_>>().join(",")
}

/// worker: single-threaded, prints "idx<TAB>rep<TAB>transcript-hash<TAB>compile-hash" per case and
/// repeat, plus the probe order
pub fn worker(tier: Tier, from: usize, to: usize, dump: Option<usize>) -> i32 {
    let cs = cases(tier);
    println!("PROBE\t{}", probe_order());
    for i in from..to.min(cs.len()) {
        for rep in 0..2 {
            let (t, j) = transcript(&cs[i]);
            if dump == Some(i) {
                eprintln!("--- case {} rep {rep}\n{t}", cs[i].id);
            }
            println!("{i}\t{rep}\t{}\t{}", hash_str(&t), hash_str(&j));
        }
    }
    0
}

struct WorkerOut {
    entropy: u64,
    build: &'static str,
    run: usize,
    lines: HashMap<(usize, usize), (u64, u64)>,
    probe: String,
    ok: bool,
}

fn spawn_worker(bin: &str, tier: Tier, entropy: u64, from: usize, to: usize) -> std::io::Result<std::process::Child> {
    std::process::Command::new(bin)
        .args(["c03-worker", "--tier", tier.name(), "--from", &from.to_string(), "--to", &to.to_string()])
        .env("LD_PRELOAD", "/verif/target/getrandom_shim.so")
        .env("VERIF_ENTROPY", entropy.to_string())
        .stdout(std::process::Stdio::piped())
        .stderr(std::process::Stdio::null())
        .spawn()
}

pub fn run(tier: Tier) -> i32 {
    let started = std::time::Instant::now();
    let cs = cases(tier);
    let n = cs.len();
    let (entropies, secs): (u64, u64) = match tier {
        Tier::Quick => (8, 55),
        Tier::Thorough => (32, 2400),
    };
    let _ctl = RunCtl::new(secs);
    let mut stats = Stats::default();
    // jobs: (build, entropy, run#). release for every entropy; entropy 0 a second time (separate
    // process, must be identical); debug build for entropy 0 and 1.
    let mut jobs: Vec<(&'static str, &'static str, u64, usize)> = vec![];
    for e in 0..entropies {
        jobs.push(("release", "/verif/target/release/vrun", e, 0));
    }
    jobs.push(("release", "/verif/target/release/vrun", 0, 1));
    jobs.push(("debug", "/verif/target/debug/vrun", 0, 0));
    jobs.push(("debug", "/verif/target/debug/vrun", 1, 0));
    // the (slow) debug build covers the tie / randomness / base-pool cases in the quick tier
    let n_debug = match tier {
        Tier::Quick => cs.iter().take_while(|c| !c.id.starts_with("seg/")).count(),
        Tier::Thorough => n,
    };
    let mut outs: Vec<WorkerOut> = vec![];
    // run in waves of 16 processes
    for wave in jobs.chunks(16) {
        let mut children = vec![];
        for (build, bin, e, run) in wave {
            match spawn_worker(bin, tier, *e, 0, if *build == "debug" { n_debug } else { n }) {
                Ok(ch) => children.push((*build, *e, *run, ch)),
                Err(err) => stats.notes.push(format!("cannot start {build} worker: {err}")),
            }
        }
        for (build, e, run, ch) in children {
            let out = ch.wait_with_output();
            let mut w = WorkerOut { entropy: e, build, run, lines: HashMap::new(), probe: String::new(), ok: false };
            if let Ok(o) = out {
                w.ok = o.status.success();
                for line in String::from_utf8_lossy(&o.stdout).lines() {
                    let f: Vec<&str> = line.split('\t').collect();
                    if f[0] == "PROBE" {
                        w.probe = f.get(1).unwrap_or(&"").to_string();
                    } else if f.len() == 4 {
                        w.lines.insert((f[0].parse().unwrap_or(0), f[1].parse().unwrap_or(0)), (f[2].parse().unwrap_or(0), f[3].parse().unwrap_or(0)));
                    }
                }
            }
            if !w.ok {
                stats.notes.push(format!("worker {build} entropy {e} failed"));
            }
            outs.push(w);
        }
    }
    let workers_ok = outs.iter().filter(|w| w.ok).count();
    if workers_ok < 3 {
        println!("MACHINERY-ERROR property={ID} only {workers_ok} workers completed");
        return 2;
    }
    // machinery sanity: same build, same entropy, two processes => identical
    let a = outs.iter().find(|w| w.build == "release" && w.entropy == 0 && w.run == 0);
    let b = outs.iter().find(|w| w.build == "release" && w.entropy == 0 && w.run == 1);
    if let (Some(a), Some(b)) = (a, b)
        && (a.lines != b.lines || a.probe != b.probe)
    {
        println!("MACHINERY-ERROR property={ID} two processes with the same entropy differ: an unowned source of nondeterminism");
        return 2;
    }
    let probe_orders: BTreeSet<String> = outs.iter().filter(|w| w.ok).map(|w| w.probe.clone()).collect();
    if probe_orders.len() < 2 {
        println!("MACHINERY-ERROR property={ID} the entropy values produced a single hash-map order ({:?}): the hash dimension was not exercised", probe_orders);
        return 2;
    }
    // per case: all (worker, repeat) hashes must agree
    let mut distinct_transcripts = 0u64;
    for (i, c) in cs.iter().enumerate() {
        let mut seen: BTreeMap<u64, Vec<String>> = BTreeMap::new();
        let mut compiled: BTreeMap<u64, Vec<String>> = BTreeMap::new();
        for w in outs.iter().filter(|w| w.ok) {
            for rep in 0..2 {
                if let Some((t, j)) = w.lines.get(&(i, rep)) {
                    seen.entry(*t).or_default().push(format!("{}:e{}:r{}", w.build, w.entropy, rep));
                    compiled.entry(*j).or_default().push(format!("{}:e{}:r{}", w.build, w.entropy, rep));
                }
            }
        }
        stats.inc("cases");
        stats.add("executions", seen.values().map(|v| v.len() as u64).sum());
        distinct_transcripts += 1;
        if seen.len() > 1 {
            let only_profile = {
                // do release configurations agree among themselves and debug among themselves?
                let rel: BTreeSet<u64> = seen.iter().filter(|(_, v)| v.iter().any(|s| s.starts_with("release"))).map(|(k, _)| *k).collect();
                let dbg: BTreeSet<u64> = seen.iter().filter(|(_, v)| v.iter().any(|s| s.starts_with("debug"))).map(|(k, _)| *k).collect();
                rel.len() == 1 && dbg.len() == 1
            };
            let kind = if only_profile { "profile-diff" } else { "run-diff" };
            stats.violation(Violation {
                property: ID.into(),
                class: format!("{ID}/{kind}/{}", c.feature),
                what: format!("case {}: {} distinct transcripts over {} configurations (same program, seed and host calls)", c.id, seen.len(), seen.values().map(|v| v.len()).sum::<usize>()),
                artefact: json!({"check": "c03", "tier": tier.name(), "case_index": i, "case": c.id, "source": c.source, "flows": c.flows, "configurations_by_transcript": seen.values().collect::<Vec<_>>()}),
            });
        }
        if compiled.len() > 1 {
            stats.violation(Violation {
                property: ID.into(),
                class: format!("{ID}/compile-diff/{}", c.feature),
                what: format!("case {}: compiling the same source gave {} different outputs", c.id, compiled.len()),
                artefact: json!({"check": "c03", "tier": tier.name(), "case_index": i, "case": c.id, "source": c.source, "configurations_by_output": compiled.values().collect::<Vec<_>>()}),
            });
        }
    }
    stats.sample(json!({"case": cs[0].id, "source": cs[0].source}));
    stats.sample(json!({"probe_orders_observed": probe_orders}));
    let extra = vec![
        ("evaluations", json!(stats.get("executions"))),
        ("distinct_nontrivial", json!(distinct_transcripts)),
        ("rule", json!("case = program x all choice paths (full observation incl. canonical save); evaluated once per (build, entropy, in-process repeat); non-trivial/distinct = distinct cases (each has its own program or host-call prefix)")),
        ("exhaustive", json!(true)),
        ("entropy_values", json!(entropies)),
        ("probe_orders_observed", json!(probe_orders)),
        ("bounds", json!({"cases": n, "entropy_values": entropies, "in_process_repeats": 2, "builds": ["release", "debug (entropy 0,1)"], "workers_completed": workers_ok, "list_values": LIST_VALUES.len(), "list_expressions": LIST_EXPRS.len()})),
        ("caps_hit", json!([])),
    ];
    finish(
        ID,
        tier,
        "exploration",
        &stats,
        extra,
        vec![
            "hash-map keys are enumerated over the shim's entropy parameter (measured reach: probe_orders_observed), not over all 2^128 keys".into(),
            "two processes with equal entropy are required to agree exactly (checked on every run)".into(),
        ],
        started,
    )
}

pub fn replay(art: &Value) -> String {
    // re-run the case under entropies 0..8 in-process is impossible (keys are per process); run
    // the worker for that single case under each entropy and report the hashes
    let i = art["case_index"].as_u64().unwrap_or(0) as usize;
    let mut out = String::new();
    for e in 0..8u64 {
        let tier = if art["tier"] == "thorough" { Tier::Thorough } else { Tier::Quick };
        if let Ok(ch) = spawn_worker("/verif/target/release/vrun", tier, e, i, i + 1)
            && let Ok(o) = ch.wait_with_output()
        {
            let lines: Vec<String> = String::from_utf8_lossy(&o.stdout).lines().filter(|l| !l.starts_with("PROBE")).map(|l| l.to_string()).collect();
            out.push_str(&format!("entropy {e}: {}\n", lines.join(" | ")));
        }
    }
    out
}
