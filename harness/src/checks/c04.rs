//! C04 — story faults are reported as errors; the runtime never panics; 32-bit wrapping
//! arithmetic, identical in debug and release; reset recovers.
//! E-enum + E-proc:
//!  (a) every native operator x every ordered operand pair from a boundary alphabet (ints incl.
//!      MIN/MAX, floats, strings, bool, list, empty list, divert target, "nothing") in 4 syntactic
//!      positions; (b) a list of fault statements; (c) every single-token mutation of corpus
//!      sources that still compiles. Each program is played along all choice paths (bounded) with
//!      save/load, flow switch and path-jump probes at every node, with and without handler.
//!  Oracle: no panic anywhere; Int + - * and unary - print the 32-bit wrapping result; after an
//!  error Reset replays like a fresh story; the debug build (overflow checks on) produces the
//!  same transcript hash for every case (second process).
use super::{Tier, common::*, finish};
use crate::{
    hx::{self, sigma_play},
    inst::{Inst, Op, Setup, hist_to_json},
    mutate,
    pool,
    prog::{CompileOutcome, Prog},
    report::{RunCtl, Stats, Violation, hash_str, par_cases},
};
use serde_json::{Value, json};
use std::{collections::BTreeMap, io::Write, rc::Rc};

pub const ID: &str = "C04";

#[derive(Clone)]
pub struct Case {
    pub id: String,
    pub family: &'static str,
    pub source: String,
    /// feature string used in violation classes (operator + operand classes, statement name, ...)
    pub feature: String,
    /// Some(expected printed text) for the wrapping-arithmetic oracle
    pub expect_print: Option<String>,
    /// the program contains one of the faults the property lists on every path: every maximal
    /// play path must report an error (Err result, pending error or handler callback);
    /// Some(Some(k)): the fault sits in knot k, so a host path jump to k must report it as well
    pub fault: Option<Option<&'static str>>,
}

const PRELUDE: &str = "VAR imax = 2147483647\nVAR imin = -2147483647\nLIST lst = (la), lb, (lc)\nVAR emp = ()\nVAR r = 0\n~ imin = (0 - 2147483647) - 1\n";
const POSTLUDE: &str = "-> END\n=== k ===\nIn k.\n-> END\n=== function nothing() ===\n~ r = r\n";

/// (source text, class name, Some(int value) when it is an Int)
const OPERANDS: &[(&str, &str, Option<i64>)] = &[
    ("0", "int0", Some(0)),
    ("1", "int", Some(1)),
    ("(0 - 1)", "int", Some(-1)),
    ("2", "int", Some(2)),
    ("imax", "intmax", Some(2147483647)),
    ("imin", "intmin", Some(-2147483648)),
    ("0.0", "float0", None),
    ("0.5", "float", None),
    ("\"\"", "str", None),
    ("\"a\"", "str", None),
    ("true", "bool", None),
    ("lst", "list", None),
    ("emp", "emptylist", None),
    ("-> k", "divert", None),
    ("nothing()", "void", None),
];

const BINOPS: &[&str] = &["+", "-", "*", "/", "%", "==", "!=", "<", ">", "<=", ">=", "&&", "||", "?", "!?", "^"];
const BINFUNS: &[&str] = &["MIN", "MAX", "POW", "RANDOM"];
const UNFUNS: &[&str] = &["-", "not", "FLOOR", "CEILING", "INT", "FLOAT", "LIST_COUNT", "LIST_MIN", "LIST_MAX", "LIST_ALL", "LIST_INVERT", "LIST_VALUE", "LIST_RANDOM"];

fn wrap(op: &str, a: i64, b: i64) -> Option<i64> {
    let (a, b) = (a as i32, b as i32);
    match op {
        "+" => Some(a.wrapping_add(b) as i64),
        "-" => Some(a.wrapping_sub(b) as i64),
        "*" => Some(a.wrapping_mul(b) as i64),
        _ => None,
    }
}

fn position(expr: &str, pos: usize) -> String {
    match pos {
        0 => format!("P:{{{expr}}}.\n"),
        1 => format!("~ r = {expr}\nAssigned {{r}}.\n"),
        2 => format!("{{ {expr}: yes | no }} cond.\n"),
        _ => format!("Before.\n* {{{expr}}} guarded\n    Took.\n* other\n    Other.\n- After.\n"),
    }
}
const POS_NAMES: &[&str] = &["print", "assign", "condition", "choice-condition"];

pub fn expression_cases() -> Vec<Case> {
    let mut v = vec![];
    for pos in 0..4 {
        for (oi, op) in BINOPS.iter().chain(BINFUNS.iter()).enumerate() {
            for (a, ca, va) in OPERANDS {
                for (b, cb, vb) in OPERANDS {
                    let is_fun = oi >= BINOPS.len();
                    let expr = if is_fun { format!("{op}({a}, {b})") } else { format!("({a} {op} {b})") };
                    let expect = match (pos, va, vb) {
                        (0, Some(x), Some(y)) => wrap(op, *x, *y).map(|w| format!("P:{w}.\n")),
                        (1, Some(x), Some(y)) => wrap(op, *x, *y).map(|w| format!("Assigned {w}.\n")),
                        _ => None,
                    };
                    v.push(Case {
                        id: format!("a/{}/{op}/{a}/{b}", POS_NAMES[pos]),
                        family: "expr",
                        source: format!("{PRELUDE}{}{POSTLUDE}", position(&expr, pos)),
                        feature: format!("{op}/{ca},{cb}"),
                        expect_print: expect,
                        // integer division / modulo by zero
                        fault: if (*op == "/" || *op == "%") && va.is_some() && *vb == Some(0) { Some(None) } else { None },
                    });
                }
            }
        }
        for op in UNFUNS {
            for (a, ca, va) in OPERANDS {
                let expr = if *op == "-" || *op == "not" { format!("({op} {a})") } else { format!("{op}({a})") };
                let expect = match (pos, *op, va) {
                    (0, "-", Some(x)) => Some(format!("P:{}.\n", (*x as i32).wrapping_neg())),
                    (1, "-", Some(x)) => Some(format!("Assigned {}.\n", (*x as i32).wrapping_neg())),
                    _ => None,
                };
                v.push(Case {
                    id: format!("a/{}/{op}/{a}", POS_NAMES[pos]),
                    family: "expr",
                    source: format!("{PRELUDE}{}{POSTLUDE}", position(&expr, pos)),
                    feature: format!("unary{op}/{ca}"),
                    expect_print: expect,
                    fault: None,
                });
            }
        }
    }
    v
}

pub fn statement_cases() -> Vec<Case> {
    let items: &[(&str, &str)] = &[
        ("divert-var-int", "VAR t = 0\nStart.\n-> t\n"),
        ("divert-var-string", "VAR t = \"k\"\nStart.\n-> t\n=== k ===\nK.\n-> END\n"),
        ("divert-var-ok-then-int", "VAR t = -> k\nStart.\n-> t\n=== k ===\nK.\n~ t = 3\n-> t\n"),
        ("unbound-external-no-fallback", "EXTERNAL ext(x)\nStart {ext(1)}.\n-> END\n"),
        ("unbound-external-fallback", "EXTERNAL ext(x)\nStart {ext(1)}.\n-> END\n=== function ext(x) ===\n~ return x\n"),
        ("fall-off-knot", "Start.\n-> k\n=== k ===\nIn k.\n"),
        ("fall-off-tunnel", "Start.\n-> t ->\nBack.\n-> END\n=== t ===\nIn t.\n"),
        ("fall-off-function-text", "Start {f()}.\n-> END\n=== function f() ===\nText only\n"),
        ("tunnel-return-outside", "Start.\n-> k\n=== k ===\nIn k.\n->->\n"),
        ("return-outside-function", "Start.\n-> k\n=== k ===\n~ return 3\nAfter.\n-> END\n"),
        ("random-reversed", "Start {RANDOM(5, 1)}.\n-> END\n"),
        ("random-empty-range", "VAR lo = 3\nStart {RANDOM(3, 2)} {RANDOM(1, 0)} {RANDOM(0, 0 - 1)} {RANDOM(lo, lo - 1)}.\n-> END\n"),
        ("random-full-range", "VAR imax = 2147483647\nVAR imin = -2147483647\nStart {RANDOM(imin - 1, imax)}.\n-> END\n"),
        ("random-max", "VAR imax = 2147483647\nStart {RANDOM(0, imax)} {RANDOM(1, imax)}.\n-> END\n"),
        ("seed-random-string", "~ SEED_RANDOM(\"x\")\nStart {RANDOM(1, 2)}.\n-> END\n"),
        ("seed-random-max", "VAR imax = 2147483647\n~ SEED_RANDOM(imax)\nStart {RANDOM(1, 6)} {RANDOM(1, 6)}.\n-> END\n"),
        ("seed-random-negative", "LIST colours = (red), (green), (blue)\n~ SEED_RANDOM(0 - 7)\nStart {RANDOM(1, 6)} {LIST_RANDOM(colours)} {LIST_RANDOM(colours)} {~a|b|c} {RANDOM(1, 6)} {LIST_RANDOM(colours)}.\n-> END\n"),
        ("seed-random-min", "LIST colours = (red), (green), (blue)\nVAR imin = 0\n~ imin = (0 - 2147483647) - 1\n~ SEED_RANDOM(imin)\nStart {RANDOM(1, 6)} {LIST_RANDOM(colours)} {LIST_RANDOM(colours)} {~a|b|c} {RANDOM(imin, 0 - 1)}.\n-> END\n"),
        ("ref-argument-undeclared-temp", "VAR g = 0\n{ g == 1:\n    ~ temp x = 1\n}\n~ bump(x)\ndone {g}\n-> END\n=== function bump(ref a) ===\n~ a = a + 1\n"),
        ("ref-argument-knot-name", "VAR g = 0\n~ bump(k)\ndone {g}\n-> END\n=== function bump(ref a) ===\n~ a = a + 1\n=== k ===\nIn k.\n-> END\n"),
        ("empty-shuffle-block", "Start.\n{ shuffle:\n}\nAfter.\n{ cycle:\n}\nEnd.\n-> END\n"),
        ("thread-recursion", "Start.\n<- a(40)\nEnd.\n-> END\n=== a(n) ===\n{n == 0: -> DONE}\n<- a(n - 1)\n-> DONE\n"),
        ("turns-since-int", "Start {TURNS_SINCE(3)}.\n-> END\n"),
        ("read-count-of-int", "VAR t = 3\nStart {READ_COUNT(t)}.\n-> END\n"),
        ("list-range-wrong-types", "LIST l = a, (b), c\nStart {LIST_RANGE(l, \"x\", true)} {LIST_RANGE(3, 1, 2)}.\n-> END\n"),
        ("list-from-int-out-of-range", "LIST l = a, (b), c\nStart {l(99)} {l(0)} {l(-1)}.\n-> END\n"),
        ("list-inc-overflow", "LIST l = a, (b), c\nVAR imax = 2147483647\nVAR v = b\n~ v = v + imax\nStart {v}.\n~ v = b\n~ v = v - imax\n{v}.\n-> END\n"),
        ("temp-before-declaration", "Start.\n-> k\n=== k ===\n{t}\n~ temp t = 1\n{t}\n-> END\n"),
        ("deep-recursion", "VAR n = 0\nStart {f(3000)}.\n-> END\n=== function f(x) ===\n{ x <= 0:\n    ~ return 0\n}\n~ return 1 + f(x - 1)\n"),
        ("infinite-recursion", "Start {f()}.\n-> END\n=== function f() ===\n~ return f()\n"),
        ("shuffle-many-loops", "VAR i = 0\n-> l\n=== l ===\n~ i = i + 1\n{~a|b|c}\n{i < 40: -> l}\n-> END\n"),
        ("string-times-int", "Start {\"ab\" * 3} {\"ab\" - \"a\"} {\"a\" / 2}.\n-> END\n"),
        ("int-overflow-chain", "VAR imax = 2147483647\nVAR x = 0\n~ x = imax\n~ x++\nInc {x}.\n~ x--\nDec {x}.\n~ x += imax\nAdd {x}.\n~ x -= imax\n~ x -= imax\n~ x -= 3\nSub {x}.\n~ x = imax * imax\nMul {x}.\n-> END\n"),
        ("pow-extremes", "VAR imax = 2147483647\nStart {POW(imax, 2)} {POW(2, 31)} {POW(0, 0 - 1)} {POW(2, 0.5)}.\n-> END\n"),
        ("int-float-casts", "VAR imax = 2147483647\nStart {INT(3000000000.0)} {INT(0 - 3000000000.0)} {FLOOR(1e30)} {INT(imax + 0.5)}.\n-> END\n"),
        ("mod-float-zero", "Start {1.5 % 0.0} {1.0 / 0.0} {0.0 / 0.0}.\n-> END\n"),
        ("choice-count-turns", "Start {CHOICE_COUNT()} {TURNS()} {TURNS_SINCE(-> k)}.\n* a [{CHOICE_COUNT()}]\n    -> k\n=== k ===\n{TURNS_SINCE(-> k)}\n-> END\n"),
        ("thread-in-function", "Start {f()}.\n-> END\n=== function f() ===\n<- t\n~ return 1\n=== t ===\nThread.\n-> DONE\n"),
        ("list-global-literal", "LIST colors = red, (green), blue\nVAR c = (red, blue)\n{c}\n-> END\n"),
        ("assign-void-function", "VAR g = 0\nStart.\n~ temp t = nothing()\n~ g = nothing()\nAfter {t} {g}.\n-> END\n=== function nothing() ===\n~ g = g\n"),
        ("print-void-function", "Start {nothing()} {nothing() + 1}.\n-> END\n=== function nothing() ===\n~ return\n"),
        ("list-ops-mixed-origin", "LIST a = (a1), a2\nLIST b = (b1), b2\nVAR m = ()\n~ m = a + b\n{m} {LIST_COUNT(m)} {LIST_VALUE(m)} {m + 1} {m - 1} {LIST_INVERT(m)}\n{a < b} {a > b} {a == b} {LIST_RANGE(m, a1, b2)}\n-> END\n"),
    ];
    items
        .iter()
        .map(|(n, s)| {
            // the faults the property names: bad divert variables, unbound externals, running out
            // of content, wrong operand types
            let fault = match *n {
                "divert-var-int" | "divert-var-string" | "unbound-external-no-fallback" | "fall-off-tunnel" | "string-times-int" => Some(None),
                "fall-off-knot" | "divert-var-ok-then-int" | "tunnel-return-outside" => Some(Some("k")),
                _ => None,
            };
            Case { id: format!("b/{n}"), family: "statement", source: s.to_string(), feature: n.to_string(), expect_print: None, fault }
        })
        .collect()
}

/// the op sequences probed at every node of the play tree
/// quick tier: three probes per node instead of all (set by run / emit from the tier, so that both
/// build profiles produce the same transcript)
static LIGHT_PROBES: std::sync::atomic::AtomicBool = std::sync::atomic::AtomicBool::new(false);

fn probes(prog: &Prog) -> Vec<Vec<Op>> {
    if LIGHT_PROBES.load(std::sync::atomic::Ordering::Relaxed) {
        let mut v = vec![vec![Op::LoadFresh, Op::Cont], vec![Op::SwitchFlow("f1".into()), Op::Cont, Op::SwitchDefault, Op::Cont]];
        if let Some(k) = prog.plain_knots.first() {
            v.push(vec![Op::ChoosePath(k.clone(), true), Op::Cont]);
        }
        v.push(vec![Op::ChoosePath("7".into(), true), Op::Cont]);
        return v;
    }
    let mut v = vec![vec![Op::Save], vec![Op::LoadFresh, Op::Cont], vec![Op::SwitchFlow("f1".into()), Op::Cont, Op::SwitchDefault, Op::Cont]];
    if let Some(k) = prog.plain_knots.first() {
        v.push(vec![Op::ChoosePath(k.clone(), true), Op::Cont]);
        v.push(vec![Op::ChoosePath(k.clone(), false), Op::Cont]);
    }
    // a host jump to a bare index (past the end of the root container) and into the middle of one
    v.push(vec![Op::ChoosePath("7".into(), true), Op::Cont]);
    v.push(vec![Op::ChoosePath("0.1".into(), false), Op::Cont]);
    // ... and past the end of a nested position, then on to the end and a save
    v.push(vec![Op::ChoosePath("0.99".into(), true), Op::Cont, Op::Save]);
    for (f, np) in prog.functions.iter().take(2) {
        v.push(vec![Op::Eval(f.clone(), (0..*np).map(|_| crate::inst::Val::Int(1)).collect())]);
    }
    v
}

pub struct Outcome {
    pub compiled: bool,
    /// canonical transcript of everything observed (for the cross-profile comparison)
    pub transcript: String,
    pub violations: Vec<(String, String, Value)>,
    pub fuel: bool,
    pub printed: Vec<String>,
}

pub fn run_case(case: &Case, depth: usize) -> Outcome {
    let mut out = Outcome { compiled: false, transcript: String::new(), violations: vec![], fuel: false, printed: vec![] };
    let prog = match Prog::from_source(&case.id, &case.source) {
        CompileOutcome::Ok(p) => p,
        CompileOutcome::Rejected(_) => return out,
        CompileOutcome::Panicked(p) => {
            out.transcript = format!("compiler-panic:{p}");
            return out;
        }
    };
    out.compiled = true;
    let mut t = String::new();
    for handler in [false, true] {
        let setup = Setup { bind_externals: None, allow_fallbacks: true, handler, observers: vec![], seed: None };
        let mut st = Stats::default();
        let sig = |o: &Value, _h: &[Op]| sigma_play(o);
        let nodes = hx::histories(&prog, &setup, depth, &sig, &mut st);
        if st.get("construct_failed") > 0 {
            // Story::new failed or panicked on the compiler's own output
            if let Err(e) = Inst::new(&prog, &setup) {
                t.push_str(&format!("construct:{e};"));
                if e.starts_with("panic:") {
                    out.violations.push((format!("panic/Story::new/{}", crate::inst::panic_class(&e[6..])), format!("Story::new panicked on a compiler-accepted program: {e}"), json!({"history": []})));
                }
            }
            break;
        }
        if st.get("fuel_exhausted") > 0 {
            out.fuel = true;
        }
        for (h, o) in &nodes {
            // the node itself
            let Ok((mut inst, rs)) = Inst::build(&prog, &setup, h) else { continue };
            if inst.fuel_exhausted {
                out.fuel = true;
                continue;
            }
            if !handler {
                for r in &rs {
                    if let Some(s) = r.strip_prefix("ok:") {
                        out.printed.push(s.to_string());
                    }
                }
            }
            t.push_str(&format!("{}|{:?}|{};", handler, rs, short_obs(o)));
            if let Some(p) = rs.iter().find_map(|r| r.strip_prefix("panic:")) {
                out.violations.push((format!("panic/{}/{p}", h.last().map(|x| x.kind()).unwrap_or("?")), format!("{} panicked: {p}", h.last().map(|x| x.kind()).unwrap_or("?")), json!({"history": hist_to_json(h), "handler": handler})));
                continue;
            }
            if let Some(d) = o.get("dead") {
                out.violations.push((format!("panic/observe/{}", d.as_str().unwrap_or("")), format!("a getter panicked: {d}"), json!({"history": hist_to_json(h), "handler": handler})));
                continue;
            }
            // probes
            for pr in probes(&prog) {
                let mut hh = h.clone();
                hh.extend(pr.iter().cloned());
                let Ok((mut i2, rs2)) = Inst::build(&prog, &setup, &hh) else { continue };
                if i2.fuel_exhausted {
                    out.fuel = true;
                    continue;
                }
                let o2 = i2.observe(false);
                if pr[0] == Op::LoadFresh && rs2[h.len()].starts_with("err") {
                    // a refused load leaves an unspecified, partly loaded state (C15 only promises
                    // that reset recovers); which globals were loaded first follows a hash-map
                    // order, so nothing after it goes into the cross-profile transcript
                    t.push_str(&format!("p-load-refused:{};", rs2[h.len()]));
                } else {
                    t.push_str(&format!("p{:?}|{};", &rs2[h.len()..], short_obs(&o2)));
                }
                if let Some(p) = rs2.iter().find_map(|r| r.strip_prefix("panic:")).map(|s| s.to_string()).or_else(|| o2.get("dead").and_then(|d| d.as_str()).map(|s| s.to_string())) {
                    out.violations.push((format!("panic/{}/{p}", pr[0].kind()), format!("{} panicked: {p}", pr[0].kind()), json!({"history": hist_to_json(&hh), "handler": handler})));
                }
            }
            // after a reported error: reset must replay like fresh
            let errored = rs.iter().any(|r| r.starts_with("err")) || o["errors"].as_array().map(|a| !a.is_empty()).unwrap_or(false) || inst.events_raw().iter().any(|e| e.starts_with("handler:E"));
            if errored {
                let mut replay = h.clone();
                replay.push(Op::Reset);
                replay.extend(h.iter().cloned());
                if let Ok((mut i3, rs3)) = Inst::build(&prog, &setup, &replay)
                    && !i3.fuel_exhausted
                {
                    let o3 = i3.observe(true);
                    let again = &rs3[h.len() + 1..];
                    let mut o1 = inst.observe(true);
                    // (handler log and line counter are cleared by the harness on reset)
                    let same = again == &rs[..] && strip_events(&mut o1.clone()) == strip_events(&mut o3.clone());
                    let _ = &mut o1;
                    if rs3[h.len()] != "ok" {
                        out.violations.push((format!("reset-after-error/refused/{}", rs3[h.len()]), format!("reset_state after an error returned {}", rs3[h.len()]), json!({"history": hist_to_json(&replay), "handler": handler})));
                    } else if !same {
                        out.violations.push(("reset-after-error/replay-differs".into(), "after an error, reset_state + the same history does not replay like the first run".into(), json!({"history": hist_to_json(&replay), "handler": handler, "first": rs, "again": again})));
                    }
                    t.push_str(&format!("r{:?};", again));
                }
            }
        }
        // the fault must be reported: on every maximal play path, and after a host path jump
        // into the knot that holds it
        if let Some(jump) = case.fault {
            let reported = |hist: &[Op]| -> Option<bool> {
                let (mut i, rs) = Inst::build(&prog, &setup, hist).ok()?;
                if i.fuel_exhausted {
                    return None;
                }
                let o = i.observe(false);
                Some(rs.iter().any(|r| r.starts_with("err")) || o["errors"].as_array().map(|a| !a.is_empty()).unwrap_or(false) || i.events_raw().iter().any(|e| e.starts_with("handler:E")))
            };
            for (h, o) in &nodes {
                if sigma_play(o).is_empty() && reported(h) == Some(false) {
                    out.violations.push((format!("fault-not-reported/play/{}", case.feature), format!("the story contains the fault `{}` on this path, but no Err result, pending error or handler callback reported it", case.feature), json!({"history": hist_to_json(h), "handler": handler})));
                    break;
                }
            }
            if let Some(k) = jump {
                for reset in [true, false] {
                    let mut hh = vec![Op::ChoosePath(k.to_string(), reset)];
                    for _ in 0..6 {
                        let Ok((mut i, _)) = Inst::build(&prog, &setup, &hh) else { break };
                        if i.observe(false)["can_continue"] != true {
                            break;
                        }
                        hh.push(Op::Cont);
                    }
                    if reported(&hh) == Some(false) {
                        out.violations.push((format!("fault-not-reported/after-path-jump/{}", case.feature), format!("after choose_path_string({k}, reset_callstack={reset}) the fault `{}` in that knot is reported neither as Err nor to the handler", case.feature), json!({"history": hist_to_json(&hh), "handler": handler})));
                    }
                }
            }
        }
    }
    out.transcript = t;
    out
}

fn strip_events(o: &mut Value) -> Value {
    if let Some(m) = o.as_object_mut() {
        m.remove("events");
        m.remove("lines");
    }
    o.clone()
}

fn short_obs(o: &Value) -> String {
    format!("{}|{}|{}|{}|{}", o["can_continue"], o["text"], o["choices"], o["globals"], o["errors"].as_array().map(|a| a.len()).unwrap_or(0))
}

/// corpus token mutants (family c): (file index, mutant index) pairs for the n smallest sources
pub fn corpus_mutant_space(n_files: usize, max_tokens: usize) -> Vec<(String, String, Vec<String>)> {
    let mut files: Vec<(String, String)> = pool::corpus_sources()
        .into_iter()
        .filter_map(|(n, p)| std::fs::read_to_string(&p).ok().map(|s| (n, s)))
        .filter(|(n, s)| !n.contains("TheIntercept") && !s.contains("INCLUDE"))
        .collect();
    files.sort_by_key(|(n, s)| (s.len(), n.clone()));
    files
        .into_iter()
        .take(n_files)
        .map(|(n, s)| {
            let toks = mutate::ink_tokens(&s);
            (n, s, toks)
        })
        .filter(|(_, _, t)| t.len() <= max_tokens)
        .collect()
}

fn all_cases(tier: Tier) -> (Vec<Case>, usize) {
    LIGHT_PROBES.store(tier == Tier::Quick, std::sync::atomic::Ordering::Relaxed);
    let mut v = expression_cases();
    if tier == Tier::Quick {
        // reduced operand alphabet: without the plain int 1 and the empty string
        v.retain(|c| !c.id.split('/').skip(3).any(|o| o == "1" || o == "\"\""));
    }
    v.extend(statement_cases());
    let base = v.len();
    let (nf, mt) = match tier {
        Tier::Quick => (12, 120),
        Tier::Thorough => (110, 2000),
    };
    for (name, _src, toks) in corpus_mutant_space(nf, mt) {
        for i in 0..mutate::token_edit_count(&toks) {
            let m = mutate::token_edit_nth(&toks, i);
            v.push(Case { id: format!("c/{name}/{i}"), family: "corpus-mutant", source: m.text, feature: format!("{name}: {}", m.desc), expect_print: None, fault: None });
        }
    }
    (v, base)
}

/// `vrun c04-emit --tier T --out FILE --upto N`: run the first N cases and write id<TAB>hash lines
/// (used with the debug build for the cross-profile comparison)
pub fn emit(tier: Tier, out_path: &str, _upto: usize) -> i32 {
    let (cases, n_profile) = all_cases(tier);
    let idx: Vec<usize> = (0..cases.len()).filter(|&i| in_debug_set(tier, &cases[i], i, n_profile)).collect();
    let ctl = RunCtl::new(3600);
    let lines = std::sync::Mutex::new(Vec::<String>::new());
    let (_st, _done) = par_cases(idx.len(), &ctl, |k, _st| {
        let i = idx[k];
        let o = run_case(&cases[i], 6);
        let panics: Vec<&str> = o.violations.iter().filter(|v| v.0.starts_with("panic")).map(|v| v.0.as_str()).collect();
        lines.lock().unwrap().push(format!("{}\t{}\t{}\t{}", i, hash_str(&o.transcript), o.compiled, panics.join(" ;; ")));
    });
    let mut l = lines.into_inner().unwrap();
    l.sort_by_key(|s| s.split('\t').next().unwrap().parse::<usize>().unwrap());
    let mut f = std::fs::File::create(out_path).expect("cannot write emit file");
    for s in l {
        writeln!(f, "{s}").unwrap();
    }
    0
}

/// which cases are also run by the debug build. quick: every statement case and every expression
/// case whose operands are all integers (the overflow-relevant ones) + every 7th other case;
/// thorough: all expression and statement cases + the first 20 000 corpus mutants.
fn in_debug_set(tier: Tier, c: &Case, i: usize, n_profile: usize) -> bool {
    match tier {
        Tier::Thorough => i < n_profile + 20_000,
        Tier::Quick => {
            if i >= n_profile {
                return false;
            }
            if c.family == "statement" {
                return true;
            }
            let ops = c.feature.rsplit('/').next().unwrap_or("");
            ops.split(',').all(|o| o.starts_with("int")) || i % 7 == 0
        }
    }
}

pub fn run(tier: Tier) -> i32 {
    let started = std::time::Instant::now();
    let secs = tier_secs(tier, 50, 2400);
    let (cases, n_profile) = all_cases(tier);
    // start the debug-profile process in the background
    let dbg_upto = (0..cases.len()).filter(|&i| in_debug_set(tier, &cases[i], i, n_profile)).count();
    let dbg_bin = "/verif/target/debug/vrun";
    let dbg_out = "/verif/out/c04_debug.tsv";
    std::fs::create_dir_all("/verif/out").ok();
    let _ = std::fs::remove_file(dbg_out);
    let child = std::process::Command::new(dbg_bin)
        .args(["c04-emit", "--tier", tier.name(), "--out", dbg_out, "--upto", &dbg_upto.to_string()])
        .env("VERIF_THREADS", "8")
        .spawn();
    let ctl = RunCtl::new(secs);
    let hashes = std::sync::Mutex::new(BTreeMap::<usize, (u64, bool)>::new());
    let (mut stats, done) = par_cases(cases.len(), &ctl, |i, st| {
        let c = &cases[i];
        let o = run_case(c, 6);
        st.inc(&format!("cases::{}", c.family));
        if !o.compiled {
            st.inc("rejected_by_compiler");
            if let Some(p) = o.transcript.strip_prefix("compiler-panic:") {
                st.inc("compiler_panics_left_to_C06");
                let _ = p;
            }
        } else {
            st.inc(&format!("compiled::{}", c.family));
            st.see("transcripts", &o.transcript);
        }
        if o.fuel {
            st.inc("fuel_exhausted");
        }
        if in_debug_set(tier, c, i, n_profile) {
            hashes.lock().unwrap().insert(i, (hash_str(&o.transcript), o.compiled));
        }
        if let Some(exp) = &c.expect_print
            && o.compiled
        {
            st.inc("wrapping_checked");
            let quoted = format!("{exp:?}");
            if !o.printed.iter().any(|p| *p == quoted) {
                st.violation(Violation {
                    property: ID.into(),
                    class: format!("{ID}/wrapping/{}", c.feature),
                    what: format!("{}: expected the 32-bit wrapping result {quoted}, printed {:?}", c.id, o.printed),
                    artefact: json!({"check": "c04", "case": c.id, "source": c.source, "expected": exp, "printed": o.printed}),
                });
            }
        }
        for (cls, what, extra) in o.violations {
            let feature = if c.family == "corpus-mutant" { "corpus-mutant".to_string() } else { c.feature.clone() };
            st.violation(Violation {
                property: ID.into(),
                class: format!("{ID}/{cls}/{feature}"),
                what: format!("{what} [{}]", c.id),
                artefact: json!({"check": "c04", "case": c.id, "source": c.source, "detail": extra, "feature": c.feature}),
            });
        }
    });
    // cross-profile comparison
    let mut profile_compared = 0u64;
    match child {
        Ok(mut ch) => {
            let status = ch.wait();
            if status.map(|s| s.success()).unwrap_or(false) {
                let text = std::fs::read_to_string(dbg_out).unwrap_or_default();
                let rel = hashes.into_inner().unwrap();
                for line in text.lines() {
                    let f: Vec<&str> = line.split('\t').collect();
                    if f.len() < 4 {
                        continue;
                    }
                    let i: usize = f[0].parse().unwrap_or(usize::MAX);
                    let Some((rh, _)) = rel.get(&i) else { continue };
                    profile_compared += 1;
                    let dh: u64 = f[1].parse().unwrap_or(0);
                    // (VERIF_C04_SELFTEST_DIFF=<index> pretends that one case differed, to exercise
                    // the confirmation below)
                    let pretend = std::env::var("VERIF_C04_SELFTEST_DIFF").ok().and_then(|s| s.parse::<usize>().ok()) == Some(i);
                    if dh != *rh || pretend {
                        let c = &cases[i];
                        // a failure must reproduce before it is believed: the case alone, in a
                        // fresh process of each build (the replay path, run twice inside)
                        let art_path = format!("/verif/out/c04_confirm_{i}.json");
                        let _ = std::fs::write(&art_path, json!({"check": "c04", "case": c.id, "source": c.source}).to_string());
                        let alone = |bin: &str| -> Option<String> {
                            let out = std::process::Command::new(bin).args(["C04", "--replay", &art_path]).output().ok()?;
                            let text = String::from_utf8_lossy(&out.stdout).to_string();
                            let keep: Vec<&str> = text.lines().filter(|l| l.starts_with("compiled=") || l.starts_with("transcript hash")).collect();
                            if keep.len() == 2 { Some(keep.join(" ")) } else { None }
                        };
                        let rel_bin = std::env::current_exe().ok().and_then(|p| p.to_str().map(|s| s.to_string())).unwrap_or_default();
                        let (a, b) = (alone(dbg_bin), alone(&rel_bin));
                        let _ = std::fs::remove_file(&art_path);
                        if a.is_some() && a == b {
                            stats.inc("profile_diff_not_reproduced_alone");
                            stats.notes.push(format!("{}: the two builds' transcripts differed inside the big run but are identical when the case runs alone in a fresh process of each build (not counted)", c.id));
                            continue;
                        }
                        let feature = if c.family == "corpus-mutant" { "corpus-mutant".to_string() } else { c.feature.clone() };
                        let dbg_panics = f[3];
                        stats.violation(Violation {
                            property: ID.into(),
                            class: format!("{ID}/profile-diff/{feature}"),
                            what: format!("{}: the debug build and the release build play this program differently{}", c.id, if dbg_panics.is_empty() { String::new() } else { format!(" (debug panics: {dbg_panics})") }),
                            artefact: json!({"check": "c04", "case": c.id, "source": c.source, "debug_panics": dbg_panics, "feature": c.feature}),
                        });
                    }
                }
            } else {
                stats.notes.push("debug-profile process failed: cross-profile comparison not done".into());
            }
        }
        Err(e) => stats.notes.push(format!("debug build not available ({e}): cross-profile comparison not done")),
    }
    stats.add("profile_cases_compared", profile_compared);
    if let Some(c) = cases.get(7) {
        stats.sample(json!({"case": c.id, "source": c.source}));
    }
    if let Some(c) = cases.last() {
        stats.sample(json!({"case": c.id, "feature": c.feature}));
    }
    let exhaustive = done == cases.len();
    let extra = vec![
        ("evaluations", json!(done)),
        ("distinct_nontrivial", json!(stats.n_distinct("transcripts"))),
        ("rule", json!("cases = all (operator, operand pair, position) combinations + fault statements + every single-token edit of the selected corpus sources; non-trivial = compiled by the repository's compiler and played; distinct = distinct full transcripts (all choice paths, probes, both handler modes)")),
        ("exhaustive", json!(exhaustive)),
        ("bounds", json!({"operands": OPERANDS.len(), "binary_ops": BINOPS.len() + BINFUNS.len(), "unary_ops": UNFUNS.len(), "positions": 4, "statements": statement_cases().len(), "path_depth": 6, "cases": cases.len(), "cases_done": done, "debug_profile_cases": dbg_upto})),
        ("caps_hit", json!(if exhaustive { vec![] } else { vec![format!("wall cap {secs}s: {done}/{} cases", cases.len())] })),
    ];
    finish(
        ID,
        tier,
        "fault_enumeration",
        &stats,
        extra,
        vec![
            "a case that burns its step fuel (legal endless loop) yields no verdict".into(),
            "debug profile = overflow checks on, same harness source; compared by transcript hash per case".into(),
        ],
        started,
    )
}

pub fn replay(art: &Value) -> String {
    let src = art["source"].as_str().unwrap_or("");
    let c = Case { id: art["case"].as_str().unwrap_or("replay").to_string(), family: "replay", source: src.to_string(), feature: String::new(), expect_print: None, fault: None };
    let o = run_case(&c, 6);
    let _ = Rc::new(0);
    if std::env::var("VERIF_DUMP").is_ok() {
        eprintln!("TRANSCRIPT {}", o.transcript.replace(';', ";\n"));
    }
    format!("compiled={} printed={:?}\nviolations: {:?}\ntranscript hash {}", o.compiled, o.printed, o.violations.iter().map(|v| (&v.0, &v.1)).collect::<Vec<_>>(), hash_str(&o.transcript))
}
