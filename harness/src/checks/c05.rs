//! C05 — the Rust compiler agrees with the reference compiler on the corpus.
//! E-hx lockstep of two programs: story A = this compiler's output for the source, story B = the
//! reference-compiled .ink.json, same runtime, same seed, same deterministic external stubs. Every
//! choice path up to the depth bound (complete trees for the small stories, a node cap for the
//! large ones, reported) must give equal lines, tags, choices (text, tags, order), end status and
//! global variable values. The three shuffle stories are compared modulo the shuffle (the shuffle
//! seed contains the container's path text, which legitimately differs between compilers).
use super::{Tier, finish};
use crate::{
    hx::sigma_play,
    inst::{Inst, Op, Setup, first_diff, guarded, hist_to_json},
    pool,
    prog::Prog,
    report::{RunCtl, Stats, Violation, par_cases},
};
use bladeink_compiler::{Compiler, CompilerError, CompilerOptions};
use serde_json::{Value, json};
use std::rc::Rc;

pub const ID: &str = "C05";

fn compile_with_includes(path: &str, text: &str) -> Result<Result<String, CompilerError>, String> {
    let dir = std::path::Path::new(path).parent().map(|p| p.to_path_buf()).unwrap_or_default();
    guarded(|| {
        Compiler::with_options(CompilerOptions::default()).compile_with_file_handler(text, |name| {
            std::fs::read_to_string(dir.join(name)).map_err(|e| CompilerError::invalid_source(format!("cannot read include {name}: {e}")))
        })
    })
}

fn view(o: &Value, shuffle: bool, r: &str) -> Value {
    let mut text = o["text"].clone();
    let mut res = r.to_string();
    if shuffle {
        // modulo the shuffle: which alternative a shuffle shows depends on the container's path
        // text (part of the shuffle seed), so for these stories the line text is not compared;
        // line/turn structure, tags, choices, end status and globals still are
        text = json!(text.as_str().map(|t| t.lines().count()));
        res = res.split(':').next().unwrap_or("").to_string();
    }
    json!({
        "result": res,
        "can_continue": o["can_continue"],
        "text": text,
        "tags": o["tags"],
        "choices": o["choices"],
        "globals": o["globals"],
        "n_errors": o["errors"].as_array().map(|a| a.len()),
        "n_warnings": o["warnings"].as_array().map(|a| a.len()),
        "dead": o.get("dead"),
    })
}

pub fn check_pair(name: &str, src_path: &str, json_path: &str, depth: usize, node_cap: usize, stats: &mut Stats) {
    let Ok(src) = std::fs::read_to_string(src_path) else { return };
    let Ok(refjson) = std::fs::read_to_string(json_path) else { return };
    let refjson = refjson.trim_start_matches('\u{feff}').to_string();
    let compiled = match compile_with_includes(src_path, &src) {
        Ok(Ok(j)) => j,
        Ok(Err(e)) => {
            stats.violation(Violation {
                property: ID.into(),
                class: format!("{ID}/rejected/{name}"),
                what: format!("this compiler rejects corpus source {name}: {e}"),
                artefact: json!({"check": "c05", "story": name}),
            });
            return;
        }
        Err(p) => {
            stats.violation(Violation {
                property: ID.into(),
                class: format!("{ID}/compiler-panic/{name}"),
                what: format!("this compiler panics on corpus source {name}: {p}"),
                artefact: json!({"check": "c05", "story": name}),
            });
            return;
        }
    };
    let shuffle = src.contains("{~") || src.contains("shuffle");
    let mut pa = Prog::from_json(&format!("{name}#rust"), &compiled);
    let pb = Prog::from_json(&format!("{name}#reference"), &refjson);
    // observe the same global names on both sides
    pa.globals = pb.globals.clone();
    pa.count_paths.clear();
    let (pa, pb) = (Rc::new(pa), {
        let mut b = pb;
        b.count_paths.clear();
        Rc::new(b)
    });
    let setup = Setup { bind_externals: Some(true), allow_fallbacks: true, handler: false, observers: vec![], seed: None };
    if shuffle {
        // the line a shuffle shows depends on the story seed and on the container's path text, so
        // one seed cannot be compared line by line. Over ALL seeds 0..K the set of texts that can
        // appear at each (turn, line) position must be the same for both compilers.
        let seeds = 400;
        let turns = 6;
        let marginals = |p: &Rc<Prog>| -> Option<std::collections::BTreeMap<(usize, usize), std::collections::BTreeSet<String>>> {
            let mut m: std::collections::BTreeMap<(usize, usize), std::collections::BTreeSet<String>> = Default::default();
            for seed in 0..seeds {
                let mut su = setup.clone();
                su.seed = Some(seed);
                let mut i = Inst::new(p, &su).ok()?;
                for t in 0..turns {
                    let mut l = 0;
                    while i.observe(false)["can_continue"] == true && l < 50 {
                        let r = i.apply(&Op::Cont);
                        m.entry((t, l)).or_default().insert(r);
                        l += 1;
                    }
                    let o = i.observe(false);
                    m.entry((t, 999)).or_default().insert(o["choices"].to_string());
                    if o["choices"].as_array().map(|a| a.is_empty()).unwrap_or(true) {
                        break;
                    }
                    i.apply(&Op::Choose(0));
                }
            }
            Some(m)
        };
        if let (Some(ma), Some(mb)) = (marginals(&pa), marginals(&pb)) {
            stats.add("shuffle_seed_runs", 2 * seeds as u64);
            if let Some(k) = mb.keys().chain(ma.keys()).find(|k| ma.get(k) != mb.get(k)) {
                stats.violation(Violation {
                    property: ID.into(),
                    class: format!("{ID}/differs/{name}/shuffle-outcomes/turn{}-line{}", k.0, k.1),
                    what: format!("{name}: over story seeds 0..{seeds}, at turn {} line {} the rust-compiled story can show {:?}, the reference-compiled story {:?}", k.0, k.1, ma.get(k), mb.get(k)),
                    artefact: json!({"check": "c05", "story": name, "history": [], "mode": "shuffle-seeds"}),
                });
            }
        }
    }
    // breadth-first over choice paths (so that a node cap cuts the deepest level, not a subtree);
    // a node = one choice path; its last turn is played line by line on both stories and compared
    // after every line, earlier turns were compared at the ancestors
    let mut queue: std::collections::VecDeque<Vec<usize>> = std::collections::VecDeque::from([vec![]]);
    let mut nodes = 0usize;
    let mut capped = false;
    const LINES_PER_TURN: usize = 400;
    while let Some(path) = queue.pop_front() {
        if nodes >= node_cap {
            capped = true;
            break;
        }
        nodes += 1;
        let (ra, rb) = (Inst::new(&pa, &setup), Inst::new(&pb, &setup));
        let (mut ia, mut ib) = match (ra, rb) {
            (Ok(ia), Ok(ib)) => (ia, ib),
            (a, b) => {
                let (ea, eb) = (a.err(), b.err());
                if ea != eb {
                    stats.violation(Violation {
                        property: ID.into(),
                        class: format!("{ID}/load/{name}"),
                        what: format!("{name}: Story::new differs: rust-compiled {:?} vs reference {:?}", ea, eb),
                        artefact: json!({"check": "c05", "story": name, "history": []}),
                    });
                }
                return;
            }
        };
        let mut h: Vec<Op> = vec![];
        let mut replay_ok = true;
        for &c in &path {
            for _ in 0..LINES_PER_TURN {
                if ib.observe(false)["can_continue"] != true {
                    break;
                }
                ia.apply(&Op::Cont);
                ib.apply(&Op::Cont);
                h.push(Op::Cont);
            }
            let (x, y) = (ia.apply(&Op::Choose(c)), ib.apply(&Op::Choose(c)));
            h.push(Op::Choose(c));
            if x != "ok" || y != "ok" {
                replay_ok = false;
                break;
            }
        }
        stats.add("transitions", 2 * h.len() as u64);
        if !replay_ok || ia.fuel_exhausted || ib.fuel_exhausted {
            stats.inc("fuel_exhausted");
            continue;
        }
        // the last turn, line by line
        let mut last = (String::new(), String::new());
        let mut ob = Value::Null;
        let mut diverged = false;
        for step in 0..LINES_PER_TURN {
            let oa = ia.observe(false);
            ob = ib.observe(false);
            let va = view(&oa, shuffle, &last.0);
            let vb = view(&ob, shuffle, &last.1);
            stats.see("states", &format!("{name}|{vb}"));
            if let Some(f) = first_diff(&va, &vb) {
                let top = f.split(['.', '[']).next().unwrap_or("").to_string();
                // the class names the story, the field and the two differing values (hashed), so
                // that another difference in the same story is a different class
                let sig = crate::report::hash_str(&format!("{}|{}", va[&top], vb[&top])) % 0x1000000;
                stats.violation(Violation {
                    property: ID.into(),
                    class: format!("{ID}/differs/{name}/{top}/{sig:06x}"),
                    what: format!("{name}: after choices {path:?} and {step} line(s) the rust-compiled story and the reference-compiled story differ in `{f}`"),
                    artefact: json!({"check": "c05", "story": name, "history": hist_to_json(&h), "field": f, "rust": va, "reference": vb}),
                });
                diverged = true;
                break;
            }
            if ob["can_continue"] != true {
                break;
            }
            last = (ia.apply(&Op::Cont), ib.apply(&Op::Cont));
            h.push(Op::Cont);
            stats.add("transitions", 2);
            if ia.fuel_exhausted || ib.fuel_exhausted {
                break;
            }
        }
        if diverged {
            // the subtree below a difference is not explored; other paths still are
            stats.inc("paths_with_difference");
            if stats.get("paths_with_difference") > 40 {
                return;
            }
            continue;
        }
        let n_choices = ob["choices"].as_array().map(|a| a.len()).unwrap_or(0);
        if n_choices == 0 || path.len() >= depth {
            stats.inc("traces");
            continue;
        }
        for c in 0..n_choices {
            let mut p2 = path.clone();
            p2.push(c);
            queue.push_back(p2);
        }
    }
    stats.add("nodes", nodes as u64);
    stats.inc("stories");
    if capped {
        stats.inc("stories_capped");
        stats.notes.push(format!("{name}: node cap {node_cap} reached (tree not complete to depth {depth})"));
    } else {
        stats.inc("stories_complete_to_depth");
    }
}

pub fn run(tier: Tier) -> i32 {
    let started = std::time::Instant::now();
    let (depth, cap, big_cap, secs) = match tier {
        Tier::Quick => (6, 3000, 1200, 50),
        Tier::Thorough => (12, 60_000, 60_000, 2400),
    };
    let pairs = pool::corpus_pairs();
    let ctl = RunCtl::new(secs);
    let (mut stats, done) = par_cases(pairs.len(), &ctl, |i, st| {
        let (name, src, js) = &pairs[i];
        let big = std::fs::metadata(js).map(|m| m.len() > 40_000).unwrap_or(false);
        check_pair(name, src, js, depth, if big { big_cap } else { cap }, st);
    });
    stats.notes.sort();
    stats.sample(json!({"story": pairs[0].0}));
    stats.sample(json!({"stories": pairs.len()}));
    let exhaustive = done == pairs.len();
    let mut caps_hit: Vec<String> = vec![];
    if !exhaustive {
        caps_hit.push(format!("wall cap {secs}s: {done}/{} pairs", pairs.len()));
    }
    if stats.get("stories_capped") > 0 {
        caps_hit.push(format!("node cap reached for {} story(ies): their choice trees are complete below the deepest level explored only (breadth-first), see notes", stats.get("stories_capped")));
    }
    let extra = vec![
        ("states", json!(stats.n_distinct("states").max(1))),
        ("transitions", json!(stats.get("transitions").max(1))),
        ("traces_validated_against_impl", json!(stats.get("traces"))),
        ("exhaustive", json!(exhaustive && stats.get("stories_capped") == 0)),
        ("bounds", json!({"pairs": pairs.len(), "pairs_done": done, "depth_ops": depth, "node_cap": cap, "node_cap_large_stories": big_cap, "stories_complete_to_depth": stats.get("stories_complete_to_depth"), "stories_capped": stats.get("stories_capped")})),
        ("caps_hit", json!(caps_hit)),
        ("merged", json!(false)),
    ];
    finish(
        ID,
        tier,
        "model_checking",
        &stats,
        extra,
        vec![
            "both stories run on the same runtime with the same forced seed and the same deterministic external stubs; visit counts are not compared (container paths legitimately differ between compilers)".into(),
            "stories that use shuffles are compared modulo the shuffle (words of each line as a sorted multiset)".into(),
        ],
        started,
    )
}

pub fn replay(art: &Value) -> String {
    let name = art["story"].as_str().unwrap_or("");
    let Some((_, src, js)) = pool::corpus_pairs().into_iter().find(|(n, _, _)| n == name) else { return "unknown story".into() };
    let mut st = Stats::default();
    check_pair(name, &src, &js, 12, 2000, &mut st);
    match st.violations.first() {
        Some(v) => format!("{}: {}", v.class, v.what),
        None => "no difference".into(),
    }
}
