//! C06 — the compiler is total and deterministic, and its output is well formed.
//! E-proc + E-enum: every input of the enumerated families is compiled in a worker process (a
//! panic is caught in-process; an abort, stack overflow or hang is caught by the parent's per-case
//! watchdog and pinned to the exact input). Oracle per input: returns; an error line exists in the
//! input; an accepted story loads in the runtime, every static reference in it resolves exactly
//! (independent resolver over the JSON document, cross-checked with the runtime's own
//! content_at_path for absolute paths) and compiling twice gives identical bytes.
use super::{Tier, finish};
use crate::{
    eproc::{self, ProcCfg},
    inst::{guarded, panic_class},
    mutate, pool,
    report::{Stats, Violation},
    resolve,
};
use bladeink::story::Story;
use bladeink_compiler::{Compiler, CompilerError};
use serde_json::{Value, json};
use std::time::Duration;

pub const ID: &str = "C06";

const HOSTILE: &[(&str, &str)] = &[
    ("tunnel-return-garbage", "->-> a)(\n"),
    ("unknown-function-stmt", "~ nofunc()\n"),
    ("unknown-function-inline", "Value {nofunc(1)}.\n"),
    ("unknown-divert", "-> nowhere\n"),
    ("unknown-tunnel", "-> nowhere ->\n"),
    ("unknown-thread", "<- nowhere\n"),
    ("unknown-readcount", "{nowhere}\n"),
    ("unknown-turns-since", "{TURNS_SINCE(-> nowhere)}\n"),
    ("unknown-choice-divert", "* a -> nowhere\n"),
    ("unknown-in-knot", "-> k\n=== k ===\n-> k.nostitch\n"),
    ("unknown-var-divert-literal", "VAR v = -> nowhere\n-> v\n"),
    ("nonascii-edge", "é->é\n"),
    ("nonascii-in-expr", "{é + 1}\n~ é = \"é\"\n"),
    ("nonascii-tail", "-> kn\u{e9}\n"),
    ("nonascii-divert-paren", "->-> k(\u{e9}\n"),
    ("emoji-logic", "~ x\u{1F600} = 1\n{x\u{1F600}}\n"),
    ("only-brace", "{\n"),
    ("only-close-brace", "}\n"),
    ("unbalanced-1", "{a|b\n"),
    ("unbalanced-2", "* [a\n"),
    ("unbalanced-3", "~ x = (1 + \n"),
    ("string-unterminated", "~ x = \"abc\n"),
    ("empty", ""),
    ("whitespace", "   \n\t\n"),
    ("bom", "\u{feff}Hello\n"),
    ("crlf", "Hello\r\n* a\r\n* b\r\n- end\r\n"),
    ("include-missing", "INCLUDE nothere.ink\n"),
    ("include-empty", "INCLUDE \n"),
    ("function-no-name", "=== function ===\n"),
    ("knot-no-name", "=== ===\n"),
    ("knot-params-garbage", "=== k(a, , ref) ===\n"),
    ("var-no-value", "VAR x\nVAR = 3\nVAR y =\n"),
    ("list-garbage", "LIST l = (, a = , (b = x)\n"),
    ("const-garbage", "CONST = \nCONST c\n"),
    ("external-garbage", "EXTERNAL\nEXTERNAL f(\n"),
    ("choice-only-markers", "* * * \n+ + \n- - -\n"),
    ("gather-label-garbage", "- (\n- ()\n* ()\n"),
    ("divert-chain", "-> a -> b -> c ->\n"),
    ("arrow-soup", "->->->->\n<-<-\n<><><>\n"),
    ("temp-garbage", "~ temp\n~ temp = 3\n~ temp x\n"),
    ("return-garbage", "~ return (\n"),
    ("tilde-only", "~\n~ \n"),
    ("sequence-garbage", "{&|}\n{!}\n{~}\n{stopping:\n}\n"),
    ("conditional-garbage", "{x:\n- else:\n- else:\n}\n{ - : }\n"),
    ("tag-only", "#\n# #\n"),
    ("comment-unterminated", "/* abc\n"),
    ("todo", "TODO: x\n"),
    ("escapes", "\\{ \\} \\| \\# \\\\ \\\n"),
    ("call-through-variable-in-global-initialiser", "VAR f = -> k\nVAR y = f()\n== k ==\n-> k\n"),
    ("float-literal-beyond-f32", "{1000000000000000000000000000000000000000.0}\n~ temp t = 0.0000000000000000000000000000000000000000000000001\n"),
    ("list-item-value-u32-max", "LIST l = a = 4294967295, b\nLIST m = c = 2147483647, d\n{l} {m}\n"),
    ("choice-empty-brackets", "* [] text after\n* a [ ] b\n- end\n"),
    ("empty-multiline-sequences", "{ shuffle:\n}\n{ cycle:\n}\n{ stopping:\n}\n{ once:\n}\n"),
    ("digit-only-names", "-> 1\n== 1 ==\nOne.\n-> k.2\n== k ==\n= 2\nTwo.\n-> END\n"),
    ("dup-item-names", "LIST lp = (same), p2\nLIST lq = q1, (same)\nLIST lr = r1, r2, (same)\nVAR m = ()\n~ m = (same)\n{m} {LIST_VALUE(m)}\n~ m = (same, p2)\n{m}\n{same}\n"),
    ("dup-item-names-in-knot", "LIST lp = (same), p2\nLIST lq = q1, (same)\nLIST lr = r1, r2, (same)\nVAR m = ()\n-> k\n=== k ===\n~ m = (same)\n{m}\n* [{same}] -> k\n"),
    ("dup-knot-and-var-names", "VAR k = 1\nLIST l = k, j\n-> k\n=== k ===\n{k}\n-> END\n=== j ===\n-> END\n"),
];

fn compile_outcome(text: &str) -> String {
    match guarded(|| Compiler::new().compile(text)) {
        Ok(Ok(j)) => format!("ok:{:x}", crate::report::hash_str(&j)),
        Ok(Err(e)) => format!("err:{e}"),
        Err(p) => format!("panic:{}", panic_class(&p)),
    }
}

/// Hidden state between compilations: every canary text is compiled (a) in a brand-new thread and
/// (b) in a thread that has just compiled a long list of refused and accepted texts (three times
/// over). The two outcomes must be identical. Canaries include, per nested construct, the deepest
/// nesting the compiler accepts (found by an ascending search in a thread of its own), because a
/// budget that leaks on refusals shows there first.
fn stateful_compile_check(stats: &mut Stats) -> Vec<(String, String)> {
    let nest = |open: &str, mid: &str, close: &str, n: usize| format!("~ x = 1\n{}{mid}{}\n", open.repeat(n), close.repeat(n));
    let shapes: Vec<(&str, &str, &str, &str)> = vec![("parens", "{", "1", "}"), ("brace-cond", "{true:", "x", "}"), ("seq", "{a|", "b", "}")];
    let mut canaries: Vec<(String, String)> = vec![
        ("plain".into(), "VAR x = 0\nHello.\n* a\n    A {x}.\n* b\n    B.\n- end\n-> END\n".into()),
        ("knots".into(), "-> k\n=== k ===\nK {k}.\n+ [again] -> k\n* [stop] -> END\n".into()),
    ];
    let mut disturbers: Vec<String> = HOSTILE.iter().map(|(_, t)| t.to_string()).collect();
    for (name, open, mid, close) in &shapes {
        let (open, mid, close) = (open.to_string(), mid.to_string(), close.to_string());
        let text = move |n: usize| if open == "{" { format!("~ x = {}{mid}{}\n", "(".repeat(n), ")".repeat(n)) } else { nest(&open, &mid, &close, n) };
        let t2 = text.clone();
        // ascending search in its own thread: the first refusal ends it
        let deepest = std::thread::spawn(move || (1..400usize).take_while(|n| compile_outcome(&t2(*n)).starts_with("ok")).last()).join().ok().flatten();
        if let Some(n) = deepest {
            canaries.push((format!("deepest-{name}-{n}"), text(n)));
            disturbers.push(text(n + 1));
            disturbers.push(text(n + 40));
        }
        disturbers.push(text(1000));
    }
    let cs = canaries.clone();
    let ds = disturbers.clone();
    let used: Vec<String> = std::thread::spawn(move || {
        for _ in 0..3 {
            for d in &ds {
                let _ = compile_outcome(d);
            }
        }
        cs.iter().map(|(_, t)| compile_outcome(t)).collect()
    })
    .join()
    .unwrap_or_default();
    let mut out = vec![];
    for (i, (name, text)) in canaries.iter().enumerate() {
        let t = text.clone();
        let fresh = std::thread::spawn(move || compile_outcome(&t)).join().unwrap_or_else(|_| "thread-died".into());
        stats.inc("stateful_compile_canaries");
        if used.get(i) != Some(&fresh) {
            out.push((name.clone(), format!("the same text compiles differently depending on what the compiler did before: in a fresh thread {:?}, after {} other compilations in the same thread {:?}", fresh.chars().take(120).collect::<String>(), disturbers.len() * 3, used.get(i).map(|s| s.chars().take(120).collect::<String>()))));
        }
    }
    stats.add("stateful_compile_disturbers", disturbers.len() as u64);
    out
}

/// 62 additions on top of the operand to their left: 62 levels of tree height without any bracket
const CHAIN62: &str = " + 1 + 1 + 1 + 1 + 1 + 1 + 1 + 1 + 1 + 1 + 1 + 1 + 1 + 1 + 1 + 1 + 1 + 1 + 1 + 1 + 1 + 1 + 1 + 1 + 1 + 1 + 1 + 1 + 1 + 1 + 1 + 1 + 1 + 1 + 1 + 1 + 1 + 1 + 1 + 1 + 1 + 1 + 1 + 1 + 1 + 1 + 1 + 1 + 1 + 1 + 1 + 1 + 1 + 1 + 1 + 1 + 1 + 1 + 1 + 1 + 1 + 1";

/// `vrun c06-stateful`: the stateful check in a process of its own (a compiler that hangs on one of
/// the texts must not hang the check), one "canary<0x01>what" line per finding, then DONE
pub fn stateful_main() -> i32 {
    let mut st = Stats::default();
    for (c, w) in stateful_compile_check(&mut st) {
        println!("{c}\u{1}{}", w.replace('\n', " "));
    }
    println!("DONE {} {}", st.get("stateful_compile_canaries"), st.get("stateful_compile_disturbers"));
    0
}

fn stateful_in_subprocess(stats: &mut Stats) -> Vec<(String, String)> {
    let exe = std::env::current_exe().ok().and_then(|p| p.to_str().map(|s| s.to_string())).unwrap_or_default();
    let Ok(mut child) = std::process::Command::new(&exe).arg("c06-stateful").stdout(std::process::Stdio::piped()).stderr(std::process::Stdio::null()).spawn() else {
        return vec![("machinery".into(), "cannot start the stateful-compile process".into())];
    };
    let started = std::time::Instant::now();
    let finished = loop {
        match child.try_wait() {
            Ok(Some(_)) => break true,
            Ok(None) if started.elapsed() > Duration::from_secs(240) => break false,
            Ok(None) => std::thread::sleep(Duration::from_millis(100)),
            Err(_) => break false,
        }
    };
    if !finished {
        let _ = child.kill();
        let _ = child.wait();
        return vec![("no-answer".into(), "compiling the hostile texts one after the other in one process did not finish within 240 s (a compilation hangs)".into())];
    }
    let mut text = String::new();
    if let Some(mut out) = child.stdout.take() {
        use std::io::Read;
        let _ = out.read_to_string(&mut text);
    }
    let mut found = vec![];
    let mut done = false;
    for l in text.lines() {
        if let Some(rest) = l.strip_prefix("DONE ") {
            done = true;
            let n: Vec<u64> = rest.split(' ').filter_map(|x| x.parse().ok()).collect();
            stats.add("stateful_compile_canaries", *n.first().unwrap_or(&0));
            stats.add("stateful_compile_disturbers", *n.get(1).unwrap_or(&0));
        } else if let Some((c, w)) = l.split_once('\u{1}') {
            found.push((c.to_string(), w.to_string()));
        }
    }
    if !done {
        found.push(("died".into(), "the process that compiles the hostile texts one after the other died before it was done (abort or stack overflow in the compiler)".into()));
    }
    found
}

fn deep_inputs(all_depths: bool) -> Vec<(String, String)> {
    let mut v = vec![];
    for depth in [50usize, 500, 5000, 50000] {
        v.push((format!("deep-braces-{depth}"), format!("{}x{}\n", "{".repeat(depth), "}".repeat(depth))));
        v.push((format!("deep-parens-{depth}"), format!("~ x = {}1{}\n", "(".repeat(depth), ")".repeat(depth))));
        v.push((format!("deep-choices-{depth}"), format!("{} a\n", "* ".repeat(depth))));
        v.push((format!("long-line-{depth}"), format!("{}\n", "word ".repeat(depth))));
        v.push((format!("many-nots-{depth}"), format!("{{{} x}}\n", "not ".repeat(depth))));
        v.push((format!("many-minus-{depth}"), format!("{{{}1}}\n", "-".repeat(depth))));
    }
    // labelled gathers that go one level deeper per line
    for depth in [100usize, 400, 1000, 3500] {
        let mut t = String::new();
        for i in 1..=depth {
            t.push_str(&format!("{}(l{i}) a\n", "-".repeat(i)));
        }
        v.push((format!("gather-stairs-{depth}"), t));
    }
    // every alternation of two nesting constructs, so that a depth bookkeeping that is right
    // for each construct alone but loses height where one wraps the other (a tall argument that is
    // not the last one, an operand on the left, a string inside a call ...) is reached as well
    let expr: &[(&str, &str, &str)] = &[("paren", "(", ")"), ("arg1", "MAX(", ", 1)"), ("arg2", "MAX(1, ", ")"), ("lhs", "(", " + 1)"), ("rhs", "(1 + ", ")"), ("not", "(not ", ")"), ("neg", "(-", ")"), ("str", "\"{", "}\""), ("call1", "LIST_COUNT(", ")"), ("chainl", "", CHAIN62)];
    let content: &[(&str, &str, &str)] = &[("cond", "{true:", "}"), ("seq", "{a|", "}"), ("print", "{(", ")}"), ("strprint", "{\"", "\"}")];
    let depths: &[usize] = if all_depths { &[20, 70, 300, 3000, 30000] } else { &[20, 70, 300, 3000] };
    for (set, prefix, base) in [(expr, "VAR x = 0\n~ x = ", "1"), (content, "VAR x = 0\n", "x")] {
        for (n1, o1, c1) in set {
            for (n2, o2, c2) in set {
                for depth in depths {
                    let open = format!("{o1}{o2}").repeat(*depth);
                    let close = format!("{c2}{c1}").repeat(*depth);
                    v.push((format!("nest-{n1}-{n2}-{depth}"), format!("{prefix}{open}{base}{close}\n")));
                }
            }
        }
    }
    v
}

pub struct Space {
    files: Vec<(String, String, Vec<String>)>,
    /// (family name, count) in index order
    pub families: Vec<(String, usize)>,
    soup: Vec<(usize, usize, &'static str)>,
    generated: Vec<(String, String)>,
    deep: Vec<(String, String)>,
}

pub fn space(tier: Tier) -> Space {
    let (nf, max_tokens, soups): (usize, usize, Vec<(usize, usize, &'static str)>) = match tier {
        Tier::Quick => (40, 400, vec![(2, 47, ""), (2, 47, " "), (2, 47, "\n"), (3, 47, " ")]),
        Tier::Thorough => (125, 4000, vec![(2, 47, ""), (2, 47, " "), (2, 47, "\n"), (3, 47, " "), (3, 47, ""), (3, 30, "\n"), (4, 22, " ")]),
    };
    let files = crate::checks::c04::corpus_mutant_space(nf, max_tokens);
    let mut families = vec![];
    for (n, s, t) in &files {
        families.push((format!("token-edit:{n}"), mutate::token_edit_count(t)));
        families.push((format!("line-edit:{n}"), mutate::line_edit_count(s)));
        families.push((format!("truncate:{n}"), mutate::truncation_count(s)));
    }
    for (l, a, sep) in &soups {
        families.push((format!("soup:{l}:{a}:{sep:?}"), mutate::soup_count(*l, *a)));
    }
    let mut generated: Vec<(String, String)> = pool::base_sources().into_iter().map(|(n, s)| (n.to_string(), s.to_string())).collect();
    let (k, a) = if tier == Tier::Quick { (2, 10) } else { (2, 16) };
    for i in 0..pool::seg_count(k, a) {
        generated.push(pool::seg_nth(k, a, i));
    }
    for (n, p) in pool::corpus_sources() {
        if let Ok(s) = std::fs::read_to_string(&p)
            && !s.contains("INCLUDE")
            && (tier == Tier::Thorough || s.len() < 3000)
        {
            generated.push((format!("corpus:{n}"), s));
        }
    }
    families.push(("generated".into(), generated.len()));
    families.push(("hostile".into(), HOSTILE.len()));
    let deep = deep_inputs(tier == Tier::Thorough);
    families.push(("deep".into(), deep.len()));
    Space { files, families, soup: soups, generated, deep }
}

impl Space {
    pub fn len(&self) -> usize {
        self.families.iter().map(|f| f.1).sum()
    }
    pub fn is_empty(&self) -> bool {
        self.len() == 0
    }
    /// (family, description, text, expected_to_compile)
    pub fn nth(&self, mut idx: usize) -> (String, String, String, bool) {
        for (fi, (fam, cnt)) in self.families.iter().enumerate() {
            if idx >= *cnt {
                idx -= cnt;
                continue;
            }
            let kind = fam.split(':').next().unwrap_or("");
            return match kind {
                "token-edit" | "line-edit" | "truncate" => {
                    let (_, s, t) = &self.files[fi / 3];
                    let m = match kind {
                        "token-edit" => mutate::token_edit_nth(t, idx),
                        "line-edit" => mutate::line_edit_nth(s, idx),
                        _ => mutate::truncation_nth(s, idx),
                    };
                    (kind.to_string(), format!("{fam}: {}", m.desc), m.text, false)
                }
                "soup" => {
                    let si = fi - self.files.len() * 3;
                    let (l, a, sep) = self.soup[si];
                    let t = mutate::soup_nth(l, a, idx, sep);
                    ("soup".into(), format!("{fam} #{idx}"), format!("{t}\n"), false)
                }
                "generated" => {
                    let (n, s) = &self.generated[idx];
                    ("generated".into(), n.clone(), s.clone(), true)
                }
                "hostile" => ("hostile".into(), HOSTILE[idx].0.to_string(), HOSTILE[idx].1.to_string(), false),
                _ => ("deep".into(), self.deep[idx].0.clone(), self.deep[idx].1.clone(), false),
            };
        }
        ("none".into(), String::new(), String::new(), false)
    }
}

/// judge one input; returns a compact payload: "status|violation;violation..."
pub fn judge(text: &str) -> (String, Vec<(String, String)>) {
    let mut viol: Vec<(String, String)> = vec![];
    let r = guarded(|| Compiler::new().compile(text));
    let status;
    match r {
        Err(p) => {
            status = "panic".to_string();
            viol.push((format!("panic/{}", panic_class(&p)), format!("the compiler panicked: {p}")));
        }
        Ok(Err(e)) => {
            status = "rejected".to_string();
            let line = match &e {
                CompilerError::InvalidSource { line, .. } | CompilerError::UnsupportedFeature { line, .. } => *line,
            };
            if let Some(l) = line {
                let nlines = text.lines().count().max(1);
                if l == 0 || l > nlines {
                    viol.push(("bad-line".into(), format!("the error names line {l} but the input has {nlines} line(s): {e}")));
                }
            }
        }
        Ok(Ok(json_text)) => {
            status = "compiled".to_string();
            // deterministic
            // (small texts that declare lists are compiled a dozen times: an order taken from a
            // freshly keyed hash map shows up with near certainty)
            let repeats = if text.len() < 400 && text.contains("LIST") { 12 } else { 1 };
            for _ in 0..repeats {
                match guarded(|| Compiler::new().compile(text)) {
                    Ok(Ok(again)) if again == json_text => {}
                    _ => {
                        viol.push(("nondeterministic-compile".into(), "compiling the same text again gave a different result".into()));
                        break;
                    }
                }
            }
            // loads
            bladeink::verif::set_forced_seed(Some(1));
            bladeink::verif::set_fuel(Some(20_000));
            match guarded(|| Story::new(&json_text).map(|_| ())) {
                Ok(Ok(())) => {}
                Ok(Err(e)) => viol.push(("story-new-fails/err".into(), format!("the compiled story does not load: {e}"))),
                Err(p) => viol.push((format!("story-new-fails/panic/{}", panic_class(&p)), format!("Story::new panicked on the compiled story: {p}"))),
            }
            // every reference resolves
            match serde_json::from_str::<Value>(&json_text) {
                Ok(doc) => {
                    let (_refs, dangling) = resolve::check_story(&doc);
                    for d in dangling.iter().take(3) {
                        viol.push((format!("dangling/{}/{}", d.kind, path_shape(&d.path)), format!("{} {:?} at {} does not resolve: {}", d.kind, d.path, d.at, d.why)));
                    }
                    // cross-check absolute paths with the runtime's own resolver
                    if dangling.is_empty() {
                        cross_check(&json_text, &doc, &mut viol);
                    }
                }
                Err(e) => viol.push(("output-not-json".into(), format!("compiled output is not JSON: {e}"))),
            }
        }
    }
    (status, viol)
}

/// shape of a dangling path, computed from the path text only (part of the violation class)
fn path_shape(p: &str) -> &'static str {
    let body = p.strip_prefix('.').unwrap_or(p);
    if p.is_empty() {
        "empty"
    } else if p == "DONE" || p == "END" {
        "keyword"
    } else if body.split('.').any(|c| c.is_empty()) {
        "empty-component"
    } else if !p.chars().all(|c| c.is_alphanumeric() || c == '_' || c == '.' || c == '^' || c == '-') {
        "non-identifier"
    } else if p == "->" || p == "->->" {
        "non-identifier"
    } else if p.chars().all(|c| c.is_ascii_uppercase() || c == '_') {
        "builtin-name"
    } else if p.starts_with('.') {
        "relative"
    } else if p.contains('.') {
        "dotted-name"
    } else {
        "plain-name"
    }
}

fn cross_check(json_text: &str, doc: &Value, viol: &mut Vec<(String, String)>) {
    use bladeink::verif::audit::{self, Path};
    let Ok(Ok((_, root, _))) = guarded(|| audit::load_default(json_text)) else { return };
    fn collect(v: &Value, out: &mut Vec<String>) {
        match v {
            Value::Array(a) => a.iter().for_each(|e| collect(e, out)),
            Value::Object(o) => {
                let is_var = o.get("var").and_then(|v| v.as_bool()).unwrap_or(false);
                for k in ["->", "f()", "->t->", "*", "CNT?", "^->"] {
                    if let Some(p) = o.get(k).and_then(|p| p.as_str())
                        && !p.starts_with('.')
                        && !(is_var && (k == "->" || k == "f()" || k == "->t->"))
                    {
                        out.push(p.to_string());
                    }
                }
                o.values().for_each(|e| collect(e, out));
            }
            _ => {}
        }
    }
    let mut paths = vec![];
    if let Some(r) = doc.get("root") {
        collect(r, &mut paths);
    }
    for p in paths {
        let path = Path::new_with_components_string(Some(&p));
        let r = guarded(|| root.content_at_path(&path, 0, -1).approximate);
        if !matches!(r, Ok(false)) {
            viol.push(("resolver-disagreement".into(), format!("the independent resolver accepts {p:?} but the runtime's content_at_path does not ({r:?})")));
        }
    }
}

pub fn worker(tier: Tier, from: usize, to: usize) -> i32 {
    // the compiler runs on a thread with the standard library's default stack (2 MiB), the
    // smallest stack a host that compiles off its main thread gives it without asking
    let h = std::thread::Builder::new().stack_size(2 * 1024 * 1024).spawn(move || {
        let sp = space(tier);
        for i in from..to.min(sp.len()) {
            let (_fam, _desc, text, _) = sp.nth(i);
            let (status, viol) = judge(&text);
            let v: Vec<String> = viol.iter().map(|(c, w)| format!("{c}\u{1}{w}")).collect();
            eproc::emit(i, &format!("{status}\u{2}{}", v.join("\u{3}")));
        }
    });
    match h.map(|h| h.join()) {
        Ok(Ok(())) => {
            println!("DONE");
            0
        }
        _ => 3,
    }
}

pub fn run(tier: Tier) -> i32 {
    let started = std::time::Instant::now();
    let sp = space(tier);
    let n = sp.len();
    let secs = match tier {
        Tier::Quick => 50,
        Tier::Thorough => 2400,
    };
    let cfg = ProcCfg {
        bin: "/verif/target/release/vrun",
        args: vec!["c06-worker".into(), "--tier".into(), tier.name().into()],
        env: vec![],
        n,
        shards: crate::report::n_threads(),
        per_case: Duration::from_secs(10),
        deadline: started + Duration::from_secs(secs),
    };
    let (res, done) = eproc::run_sharded(&cfg);
    let mut stats = Stats::default();
    stats.add("inputs", n as u64);
    stats.add("workers_spawned", res.workers_spawned as u64);
    let mk = |i: usize, class: String, what: String| {
        let (fam, desc, text, _) = sp.nth(i);
        Violation {
            property: ID.into(),
            class: format!("{ID}/{class}"),
            what: format!("{what} [{fam}: {desc}]"),
            artefact: json!({"check": "c06", "index": i, "tier": tier.name(), "family": fam, "desc": desc, "input": text}),
        }
    };
    for (i, payload) in &res.lines {
        let (status, rest) = payload.split_once('\u{2}').unwrap_or((payload, ""));
        stats.inc(&format!("status::{status}"));
        let (fam, _d, _t, must_compile) = sp.nth(*i);
        stats.inc(&format!("family::{fam}"));
        if status == "compiled" {
            stats.see("compiled_inputs", &i.to_string());
        }
        if must_compile && status == "rejected" {
            stats.inc("well_formed_input_rejected");
        }
        for v in rest.split('\u{3}').filter(|s| !s.is_empty()) {
            let (c, w) = v.split_once('\u{1}').unwrap_or((v, ""));
            // the class also names how the input was made (family + edit kind), so that a known
            // finding about, say, token replacements does not hide a new one reached by
            // identifier edits
            let (fam, desc, _, _) = sp.nth(*i);
            let tag = match fam.as_str() {
                "token-edit" => {
                    let d = desc.rsplit(": ").next().unwrap_or("");
                    let k = ["delete", "duplicate", "swap", "drop first", "drop last", "append", "replace"].iter().find(|k| d.starts_with(**k)).copied().unwrap_or("edit");
                    format!("token-{}", k.replace(' ', "-"))
                }
                "line-edit" => {
                    let d = desc.rsplit(": ").next().unwrap_or("");
                    format!("line-{}", d.split(' ').next().unwrap_or("edit"))
                }
                "hostile" => format!("hostile:{desc}"),
                other => other.to_string(),
            };
            stats.violation(mk(*i, format!("{c}/{tag}"), w.replace("\\n", "\n")));
        }
    }
    for (i, how) in &res.crashes {
        let (fam, ..) = sp.nth(*i);
        stats.violation(mk(*i, format!("abort/{fam}"), format!("the compiler process died ({how})")));
    }
    for i in &res.hangs {
        let (fam, ..) = sp.nth(*i);
        stats.violation(mk(*i, format!("hang/{fam}"), "no answer within the 10 s per-input cap, nor within 120 s when compiled alone".into()));
    }
    // the compiler is a function of its input: what it did before must not matter
    for (canary, what) in stateful_in_subprocess(&mut stats) {
        stats.violation(Violation {
            property: ID.into(),
            class: format!("{ID}/stateful-compile/{canary}"),
            what,
            artefact: json!({"check": "c06", "mode": "stateful-compile", "canary": canary}),
        });
    }
    let (f0, d0, t0, _) = sp.nth(0);
    stats.sample(json!({"family": f0, "desc": d0, "input": t0}));
    let (f1, d1, t1, _) = sp.nth(n - 1);
    stats.sample(json!({"family": f1, "desc": d1, "input": t1.chars().take(80).collect::<String>()}));
    let exhaustive = done >= n;
    let fam_counts: serde_json::Map<String, Value> = {
        let mut m = serde_json::Map::new();
        for (f, c) in &sp.families {
            let k = f.split(':').next().unwrap_or("").to_string();
            let e = m.entry(k).or_insert(json!(0));
            *e = json!(e.as_u64().unwrap_or(0) + *c as u64);
        }
        m
    };
    let extra = vec![
        ("evaluations", json!(res.lines.len() + res.crashes.len() + res.hangs.len())),
        ("slow_but_answered_when_run_alone", json!(res.slow.len())),
        ("distinct_nontrivial", json!(stats.n_distinct("compiled_inputs"))),
        ("rule", json!("inputs = every single token edit / line edit / char truncation of the selected corpus sources + all token strings of the stated lengths + generated well-formed programs + hostile and deep inputs; non-trivial = accepted by the compiler (then loaded and statically resolved); distinct by input index")),
        ("exhaustive", json!(exhaustive)),
        ("family_counts", Value::Object(fam_counts)),
        ("bounds", json!({"inputs": n, "inputs_done": done, "corpus_files": sp.files.len(), "per_input_wall_cap_s": 10})),
        ("caps_hit", json!(if exhaustive { vec![] } else { vec![format!("wall cap {secs}s: {done}/{n} inputs")] })),
    ];
    finish(
        ID,
        tier,
        "fault_enumeration",
        &stats,
        extra,
        vec![
            "the static resolver is harness code over serde_json::Value; it was calibrated on the reference-compiled corpus (0 dangling references)".into(),
            "a hang is 'no answer within 10 s' for one input in a shared worker process and again no answer within 120 s in a worker of its own; nowhere else is wall time an oracle".into(),
        ],
        started,
    )
}

pub fn replay(art: &Value) -> String {
    let text = art["input"].as_str().unwrap_or("");
    let (status, viol) = judge(text);
    format!("status {status}\nviolations {viol:?}")
}
