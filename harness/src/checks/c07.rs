//! C07 — expressions over numbers, strings and lists evaluate as Ink specifies.
//! E-enum: every expression tree of the families below (all operators x all atoms of the alphabet,
//! depth <= 2, plus unparenthesised chains that exercise the parser's binding strength) is filtered
//! by the independent evaluator (`ink::expr`: ill-typed and inexact-float trees are outside the
//! property), rendered to Ink source, compiled by the repository's compiler, played on the real
//! `Story`, and compared in four observation points: the value printed by `{e}`, the value stored
//! by `~ r = e` as seen through `get_variable` (type and content) and printed again, the origins a
//! list result remembers (`LIST_ALL` / `LIST_INVERT` of the stored variable), and the result of
//! storing it over a variable that already holds a list.
use super::{Tier, finish};
use crate::{
    ink::expr::{self, B, BINARY, EV, INFIX, Stop, U, UNARY, X},
    inst::{Inst, Op, Setup, render_vt},
    prog::{CompileOutcome, Prog},
    report::{RunCtl, Stats, Violation, par_cases},
};
use serde_json::{Value, json};

pub const ID: &str = "C07";
const PER_PROGRAM: usize = 24;
const CHUNK: usize = 512;

#[derive(Clone)]
pub struct Case {
    pub fam: &'static str,
    pub index: usize,
    pub tree: X,
    pub src: String,
    pub want: Result<Vec<EV>, Stop>,
}

pub struct Fam {
    pub name: &'static str,
    pub atoms: Vec<X>,
    pub size: usize,
}

fn pow(a: usize, k: u32) -> usize {
    a.pow(k)
}

pub fn fam(name: &'static str, atoms: Vec<X>) -> Fam {
    let a = atoms.len();
    let (nb, nu, ni) = (BINARY.len(), UNARY.len(), INFIX.len());
    let size = match name {
        "pair" | "pair-kw" => pow(a, 2) * nb,
        "unary" => a * nu,
        "unary2" => a * nu * nu,
        "range" => pow(a, 3),
        "d2-left" | "d2-right" => pow(a, 3) * nb * nb,
        "d2-un-out" | "d2-un-l" | "d2-un-r" => pow(a, 2) * nb * nu,
        "chain3" | "chain3-kw" => pow(a, 3) * ni * ni,
        "chain4" => pow(a, 4) * ni * ni * ni,
        "prefix-chain" => pow(a, 2) * 2 * ni,
        _ => 0,
    };
    Fam { name, atoms, size }
}

fn digits(mut i: usize, bases: &[usize]) -> Vec<usize> {
    let mut out = vec![];
    for b in bases {
        out.push(i % b);
        i /= b;
    }
    out
}

/// the i-th candidate of a family: (tree used by the evaluator, source text given to the compiler)
pub fn nth(f: &Fam, i: usize) -> Option<(X, String)> {
    let a = f.atoms.len();
    let (nb, nu, ni) = (BINARY.len(), UNARY.len(), INFIX.len());
    let at = |k: usize| f.atoms[k].clone();
    Some(match f.name {
        "pair" | "pair-kw" => {
            let d = digits(i, &[a, a, nb]);
            let op = BINARY[d[2]];
            let kw = f.name == "pair-kw";
            if kw && op.text(true) == op.text(false) {
                return None;
            }
            let t = X::bin(at(d[0]), op, at(d[1]));
            let s = t.render(kw);
            (t, s)
        }
        "unary" => {
            let d = digits(i, &[a, nu]);
            let t = X::un(UNARY[d[1]], at(d[0]));
            let s = t.render(true);
            (t, s)
        }
        "unary2" => {
            let d = digits(i, &[a, nu, nu]);
            let t = X::un(UNARY[d[2]], X::un(UNARY[d[1]], at(d[0])));
            let s = t.render(true);
            (t, s)
        }
        "range" => {
            let d = digits(i, &[a, a, a]);
            let t = X::Range(Box::new(at(d[0])), Box::new(at(d[1])), Box::new(at(d[2])));
            let s = t.render(true);
            (t, s)
        }
        "d2-left" | "d2-right" => {
            let d = digits(i, &[a, a, a, nb, nb]);
            let (o1, o2) = (BINARY[d[3]], BINARY[d[4]]);
            let t = if f.name == "d2-left" { X::bin(X::bin(at(d[0]), o1, at(d[1])), o2, at(d[2])) } else { X::bin(at(d[0]), o1, X::bin(at(d[1]), o2, at(d[2]))) };
            let s = t.render(false);
            (t, s)
        }
        "d2-un-out" | "d2-un-l" | "d2-un-r" => {
            let d = digits(i, &[a, a, nb, nu]);
            let (o, u) = (BINARY[d[2]], UNARY[d[3]]);
            let t = match f.name {
                "d2-un-out" => X::un(u, X::bin(at(d[0]), o, at(d[1]))),
                "d2-un-l" => X::bin(X::un(u, at(d[0])), o, at(d[1])),
                _ => X::bin(at(d[0]), o, X::un(u, at(d[1]))),
            };
            let s = t.render(true);
            (t, s)
        }
        "chain3" | "chain3-kw" => {
            let d = digits(i, &[a, a, a, ni, ni]);
            let atoms = [at(d[0]), at(d[1]), at(d[2])];
            let ops = [INFIX[d[3]], INFIX[d[4]]];
            let kw = f.name == "chain3-kw";
            if kw && ops.iter().all(|o| o.text(true) == o.text(false)) {
                return None;
            }
            (expr::parse_chain(&atoms, &ops), expr::render_chain(&atoms, &ops, kw))
        }
        "chain4" => {
            let d = digits(i, &[a, a, a, a, ni, ni, ni]);
            let atoms = [at(d[0]), at(d[1]), at(d[2]), at(d[3])];
            let ops = [INFIX[d[4]], INFIX[d[5]], INFIX[d[6]]];
            (expr::parse_chain(&atoms, &ops), expr::render_chain(&atoms, &ops, false))
        }
        "prefix-chain" => {
            // `not a op b` / `-a op b`: a prefix operator binds tighter than every infix operator
            let d = digits(i, &[a, a, 2, ni]);
            let u = if d[2] == 0 { U::Not } else { U::Neg };
            let op = INFIX[d[3]];
            let t = X::bin(X::un(u, at(d[0])), op, at(d[1]));
            let s = format!("{}{} {} {}", if u == U::Not { "not " } else { "-" }, at(d[0]).render(true), op.text(false), at(d[1]).render(true));
            (t, s)
        }
        _ => return None,
    })
}

fn has_pow(x: &X) -> bool {
    match x {
        X::Bin(a, op, b) => *op == B::Pow || has_pow(a) || has_pow(b),
        X::Un(_, a) => has_pow(a),
        X::Range(l, a, b) => has_pow(l) || has_pow(a) || has_pow(b),
        _ => false,
    }
}

pub fn case_of(f: &Fam, i: usize) -> Option<Case> {
    let (tree, src) = nth(f, i)?;
    let want = expr::eval(&tree);
    Some(Case { fam: f.name, index: i, tree, src, want })
}

fn render_ev(v: &EV) -> String {
    match v {
        EV::Int(i) => format!("Int({i})"),
        EV::Float(f) => format!("Float({f:?})"),
        EV::Bool(b) => format!("Bool({b})"),
        EV::Str(s) => format!("Str({s:?})"),
        EV::List(l) => {
            let mut items: Vec<String> = l.items.iter().map(|(v, o, n)| format!("{o}.{n}={v}")).collect();
            items.sort();
            format!("List[{}]", items.join(","))
        }
    }
}

fn printable_directly(src: &str) -> bool {
    // `{a || b}` would be read as a sequence and `{!x}` as a once-only sequence: those spellings
    // are checked through the stored value only
    !src.contains('|') && !src.starts_with('!') && !src.starts_with("(!")
}

fn program(cases: &[&Case]) -> String {
    let mut s = expr::header();
    for j in 0..cases.len() {
        s.push_str(&format!("VAR r{j} = 0\n"));
    }
    s.push_str("-> go\n== go\n");
    for (j, c) in cases.iter().enumerate() {
        s.push_str("~ vl = (a1, b1)\n");
        if printable_directly(&c.src) {
            s.push_str(&format!("P{j}:{{{}}}:\n", c.src));
        }
        s.push_str(&format!("~ r{j} = {}\n", c.src));
        s.push_str(&format!("Q{j}:{{r{j}}}:\n"));
        if matches!(&c.want, Ok(v) if v.iter().any(|x| matches!(x, EV::List(_)))) {
            s.push_str(&format!("O{j}:{{LIST_ALL(r{j})}}:{{LIST_INVERT(r{j})}}:\n"));
            s.push_str(&format!("~ vl = {}\n", c.src));
            s.push_str(&format!("V{j}:{{vl}}:{{LIST_ALL(vl)}}:\n"));
        }
    }
    s.push_str("END.\n-> END\n");
    s
}

struct Played {
    lines: Vec<String>,
    vars: Vec<Option<String>>,
    problem: Option<String>,
}

enum Run {
    Rejected(String),
    CompilerPanic(String),
    Played(Played),
}

fn play(src: &str, n: usize) -> Run {
    let prog = match Prog::from_source("c07", src) {
        CompileOutcome::Ok(p) => p,
        CompileOutcome::Rejected(e) => return Run::Rejected(e),
        CompileOutcome::Panicked(e) => return Run::CompilerPanic(e),
    };
    let setup = Setup { bind_externals: None, allow_fallbacks: false, handler: false, observers: vec![], seed: None };
    let mut inst = match Inst::new(&prog, &setup) {
        Ok(i) => i,
        Err(e) => return Run::Played(Played { lines: vec![], vars: vec![], problem: Some(format!("Story::new: {e}")) }),
    };
    let mut lines = vec![];
    let mut problem = None;
    for _ in 0..(8 * n + 8) {
        let Some(story) = inst.story.as_mut() else { break };
        if !story.can_continue() {
            break;
        }
        let r = inst.apply(&Op::Cont);
        if let Some(d) = &inst.dead {
            problem = Some(format!("panic: {d}"));
            break;
        }
        if !r.starts_with("ok:") {
            problem = Some(format!("continue -> {r}"));
            break;
        }
        let story = inst.story.as_mut().unwrap();
        lines.push(story.get_current_text().unwrap_or_default().trim().to_string());
        if story.has_error() {
            problem = Some(format!("story errors: {:?}", story.get_current_errors()));
            break;
        }
    }
    let mut vars = vec![];
    if let Some(story) = inst.story.as_mut() {
        for j in 0..n {
            vars.push(story.get_variable(&format!("r{j}")).map(|v| render_vt(&v)));
        }
    }
    Run::Played(Played { lines, vars, problem })
}

fn line<'a>(p: &'a Played, prefix: &str) -> Option<&'a str> {
    p.lines.iter().find(|l| l.starts_with(prefix)).map(|l| &l[prefix.len()..])
}

/// Some((aspect, explanation)) when case j of a played program disagrees with the evaluator
fn judge_case(c: &Case, j: usize, p: &Played) -> Option<(String, String)> {
    let Ok(alts) = &c.want else { return None };
    let value_only = has_pow(&c.tree);
    if printable_directly(&c.src) {
        match line(p, &format!("P{j}:")) {
            None => return Some(("print/missing".into(), format!("no output line for {{{}}}", c.src))),
            Some(got) => {
                if !alts.iter().any(|v| format!("{}:", expr::print(v)) == got) {
                    return Some(("print".into(), format!("{{{}}} prints {:?}; Ink's rules give {:?}", c.src, got.trim_end_matches(':'), alts.iter().map(expr::print).collect::<Vec<_>>())));
                }
            }
        }
    }
    let q = line(p, &format!("Q{j}:"));
    let o = line(p, &format!("O{j}:"));
    let var = p.vars.get(j).cloned().flatten();
    let mut first: Option<(String, String)> = None;
    let mut ok = false;
    for v in alts {
        let mut bad: Option<(String, String)> = None;
        if !value_only && var.as_deref() != Some(render_ev(v).as_str()) {
            bad = Some(("store".into(), format!("after ~ r = {} get_variable gives {:?}; Ink's rules give {}", c.src, var, render_ev(v))));
        } else if q != Some(format!("{}:", expr::print(v)).as_str()) {
            bad = Some(("store-print".into(), format!("after ~ r = {} the variable prints {:?}; Ink's rules give {:?}", c.src, q, expr::print(v))));
        } else if let EV::List(_) = v {
            let want = format!("{}:{}:", expr::print(&expr::all_list(v).unwrap()), expr::print(&expr::invert_list(v).unwrap()));
            if o != Some(want.as_str()) {
                bad = Some(("origins".into(), format!("after ~ r = {} LIST_ALL(r):LIST_INVERT(r): print {:?}; Ink's rules give {:?}", c.src, o, want)));
            }
        }
        match bad {
            None => {
                ok = true;
                break;
            }
            Some(b) => {
                if first.is_none() {
                    first = Some(b)
                }
            }
        }
    }
    if !ok {
        return first;
    }
    if alts.iter().any(|v| matches!(v, EV::List(_))) {
        let old = expr::var_value("vl").unwrap();
        let got = line(p, &format!("V{j}:"));
        let wants: Vec<String> = alts
            .iter()
            .map(|v| {
                let st = expr::store_over(&old, v);
                format!("{}:{}:", expr::print(&st), expr::all_list(&st).map(|a| expr::print(&a)).unwrap_or_default())
            })
            .collect();
        if !wants.iter().any(|w| Some(w.as_str()) == got) {
            return Some(("store-over-list".into(), format!("~ vl = {} over vl = (a1, b1): vl:LIST_ALL(vl): print {:?}; Ink's rules give {:?}", c.src, got, wants)));
        }
    }
    None
}

fn types_of(c: &Case) -> String {
    let mut atoms = vec![];
    c.tree.atoms(&mut atoms);
    atoms.iter().map(|a| expr::eval(a).ok().and_then(|v| v.first().map(|x| x.ty())).unwrap_or("?")).collect::<Vec<_>>().join(",")
}

fn class_of(c: &Case, aspect: &str) -> String {
    let fam = if c.fam.starts_with("chain") || c.fam == "prefix-chain" { "chain" } else { "tree" };
    format!("{ID}/{aspect}/{fam}/{}/{}", c.tree.shape(), types_of(c))
}

fn violation(c: &Case, aspect: &str, what: String) -> Violation {
    Violation {
        property: ID.into(),
        class: class_of(c, aspect),
        what: format!("{what} [family {}, index {}]", c.fam, c.index),
        artefact: json!({"check": "c07", "family": c.fam, "index": c.index, "source": c.src, "tier_atoms": "see bounds"}),
    }
}

/// one case alone (also the replay path and the fallback when a batch fails as a whole)
pub fn judge_single(c: &Case) -> Option<(String, String)> {
    match &c.want {
        Err(Stop::Ill) | Err(Stop::Inexact) => None,
        Err(Stop::Error(kind)) => {
            let stmt = if printable_directly(&c.src) { format!("P0:{{{}}}:", c.src) } else { format!("~ vi = {}", c.src) };
            let src = format!("{}-> go\n== go\n~ vl = (a1, b1)\n{stmt}\nEND.\n-> END\n", expr::header());
            match play(&src, 0) {
                Run::CompilerPanic(e) => Some(("compiler-panic".into(), format!("compiling {{{}}} panics: {e}", c.src))),
                Run::Rejected(_) => None, // a constant division by zero may be refused at compile time
                Run::Played(p) => match &p.problem {
                    Some(pr) if pr.starts_with("panic") => Some(("panic".into(), format!("{{{}}} ({kind}) panics instead of raising a story error: {pr}", c.src))),
                    Some(_) => None,
                    None => Some(("error-missed".into(), format!("{{{}}} ({kind}) raises no error; lines {:?}", c.src, p.lines))),
                },
            }
        }
        Ok(_) => {
            let src = program(&[c]);
            match play(&src, 1) {
                Run::CompilerPanic(e) => Some(("compiler-panic".into(), format!("compiling `{}` panics: {e}", c.src))),
                Run::Rejected(e) => Some(("rejected".into(), format!("the compiler refuses the well-typed expression `{}`: {e}", c.src))),
                Run::Played(p) => {
                    if let Some(pr) = &p.problem {
                        let aspect = if pr.starts_with("panic") { "panic" } else { "engine-error" };
                        return Some((aspect.into(), format!("`{}`: {pr}; Ink's rules give {:?}", c.src, c.want.as_ref().unwrap().iter().map(render_ev).collect::<Vec<_>>())));
                    }
                    judge_case(c, 0, &p)
                }
            }
        }
    }
}

fn run_batch(cases: &[Case], st: &mut Stats) {
    let (errs, oks): (Vec<&Case>, Vec<&Case>) = cases.iter().partition(|c| c.want.is_err());
    for c in errs {
        st.inc("cases::expected-story-error");
        if let Some((aspect, what)) = judge_single(c) {
            st.violation(violation(c, &aspect, what));
        }
    }
    for group in oks.chunks(PER_PROGRAM) {
        st.inc("programs");
        let src = program(group);
        let whole = match play(&src, group.len()) {
            Run::Played(p) if p.problem.is_none() => Some(p),
            _ => None,
        };
        for (j, c) in group.iter().enumerate() {
            st.inc("cases");
            st.inc(&format!("cases::{}", c.fam));
            let alts = c.want.as_ref().unwrap();
            if alts.len() > 1 {
                st.inc("cases::several-acceptable-values");
            }
            st.see("values", &format!("{:?}", alts));
            st.see("shapes", &format!("{}|{}", c.tree.shape(), types_of(c)));
            let verdict = match &whole {
                Some(p) => match judge_case(c, j, p) {
                    // confirm alone, so that a neighbour in the batch can never be blamed
                    Some(_) => judge_single(c),
                    None => None,
                },
                None => {
                    st.inc("cases::rerun-alone");
                    judge_single(c)
                }
            };
            if let Some((aspect, what)) = verdict {
                st.violation(violation(c, &aspect, what));
            }
        }
    }
}

pub fn families(tier: Tier) -> Vec<Fam> {
    let full = expr::full_atoms;
    let small = expr::small_atoms;
    let tiny = || vec![X::Int(0), X::Int(2), X::Int(7), X::Bool(true), X::Lit(vec![]), X::Lit(vec!["a1", "b1"]), X::Item("a2"), X::Float(1.5)];
    match tier {
        Tier::Quick => vec![
            fam("pair", full()),
            fam("pair-kw", full()),
            fam("unary", full()),
            fam("unary2", small()),
            fam("range", small()),
            fam("prefix-chain", small()),
            fam("chain3", tiny()),
            fam("chain3-kw", tiny()),
            fam("d2-left", tiny()),
            fam("d2-right", tiny()),
            fam("d2-un-out", small()),
            fam("d2-un-l", small()),
            fam("d2-un-r", small()),
        ],
        Tier::Thorough => vec![
            fam("pair", full()),
            fam("pair-kw", full()),
            fam("unary", full()),
            fam("unary2", full()),
            fam("range", full()),
            fam("prefix-chain", full()),
            fam("chain3", small()),
            fam("chain3-kw", small()),
            fam("chain4", tiny()),
            fam("d2-left", small()),
            fam("d2-right", small()),
            fam("d2-un-out", full()),
            fam("d2-un-l", full()),
            fam("d2-un-r", full()),
        ],
    }
}

/// One expression per syntactic position (string interpolation, arguments of diverts / tunnels /
/// threads / statement calls, conditions of the inline and the block form, text that contains `:` or
/// `=`): (name, program, the non-empty lines Ink's rules give). Constants, calls and comparisons
/// must mean the same wherever they stand.
pub fn position_cases() -> Vec<(String, String, Vec<String>)> {
    let header = "CONST c = 5\nVAR x = 4\n";
    let tail = "-> END\n=== function one() ===\n~ return 1\n=== function zero() ===\n~ return 0\n=== function show(v) ===\nshown {v}\n=== k(p) ===\narg {p}\n-> END\n=== tun(p) ===\ntunnel {p}\n->->\n=== th(p) ===\nthread {p}\n-> DONE\n";
    let cases: Vec<(&str, &str, Vec<&str>)> = vec![
        ("const/print", "{c} {c + 1}\n", vec!["5 6"]),
        ("const/in-string", "~ temp s = \"v={c}\"\n{s}\n", vec!["v=5"]),
        ("const/in-printed-string", "{\"v={c + 1}\"}\n", vec!["v=6"]),
        ("const/divert-argument", "-> k(c + 1)\n", vec!["arg 6"]),
        ("const/tunnel-argument", "-> tun(c) ->\nback\n", vec!["tunnel 5", "back"]),
        ("const/thread-argument", "<- th(c)\nmain\n", vec!["thread 5", "main"]),
        ("const/call-argument", "~ show(c)\n", vec!["shown 5"]),
        ("const/condition", "{c == 5: yes|no} {c > x: more|less}\n", vec!["yes more"]),
        ("string/inline-conditional", "~ temp s = \"{x > 3:big|small}\"\n{s}\n", vec!["big"]),
        ("string/inline-conditional-in-text", "~ temp s = \"pre {x > 3:big} post\"\n{s}\n", vec!["pre big post"]),
        ("string/inline-sequence", "~ temp s = \"{&one|two}\"\n{s}\n", vec!["one"]),
        ("condition/ends-in-call", "{x == one(): yes|no}\n", vec!["no"]),
        ("condition/not-call", "{not zero(): yes|no}\n", vec!["yes"]),
        ("condition/block-ends-in-call", "{x == one():\n    yes\n- else:\n    no\n}\n", vec!["no"]),
        ("condition/choice-ends-in-call", "* {x == one()} never\n* {x > one()} [pick]\n- {CHOICE_COUNT()}\n", vec![]),
        ("call/argument-with-equality", "~ show(x == 4)\n", vec!["shown true"]),
        ("call/argument-with-comparison", "~ show(x >= 2)\n", vec!["shown true"]),
        ("call/argument-string-with-equals-sign", "~ show(\"a=b\")\n", vec!["shown a=b"]),
        ("text/colon-in-string", "{\"a:b\"}\n", vec!["a:b"]),
        ("text/colon-in-concatenation", "{\"n\" + \": hi\"}\n", vec!["n: hi"]),
        ("text/colon-in-compared-string", "{\"a:b\" == \"a:b\": yes|no}\n", vec!["yes"]),
    ];
    cases
        .into_iter()
        .filter(|(n, _, _)| *n != "condition/choice-ends-in-call")
        .map(|(n, body, want)| (n.to_string(), format!("{header}{body}{tail}"), want.into_iter().map(|s| s.to_string()).collect()))
        .collect()
}

pub fn run(tier: Tier) -> i32 {
    let started = std::time::Instant::now();
    let fams = families(tier);
    let secs = if tier == Tier::Quick { 50 } else { 3000 };
    // work items: (family, chunk of raw indices)
    let mut items: Vec<(usize, usize)> = vec![];
    for (fi, f) in fams.iter().enumerate() {
        let mut at = 0;
        while at < f.size {
            items.push((fi, at));
            at += CHUNK;
        }
    }
    let ctl = RunCtl::new(secs);
    let (mut stats, done) = par_cases(items.len(), &ctl, |k, st| {
        let (fi, from) = items[k];
        let f = &fams[fi];
        let mut cases = vec![];
        for i in from..(from + CHUNK).min(f.size) {
            st.inc("candidates");
            let Some(c) = case_of(f, i) else {
                st.inc("candidates::duplicate-spelling");
                continue;
            };
            match &c.want {
                Err(Stop::Ill) => st.inc("candidates::not-well-typed"),
                Err(Stop::Inexact) => st.inc("candidates::inexact-float"),
                _ => cases.push(c),
            }
        }
        run_batch(&cases, st);
    });
    let exhaustive = done == items.len();
    // the same small expressions in every syntactic position an expression can stand in
    for (name, src, want) in position_cases() {
        stats.inc("position_cases");
        let got: Result<Vec<String>, String> = match play(&src, 0) {
            Run::Rejected(e) => Err(format!("rejected by the compiler: {e}")),
            Run::CompilerPanic(e) => Err(format!("compiler panic: {e}")),
            Run::Played(p) => match p.problem {
                Some(pr) => Err(pr),
                None => Ok(p.lines.into_iter().filter(|l| !l.is_empty()).collect()),
            },
        };
        if got.as_ref().ok() != Some(&want) {
            stats.violation(Violation {
                property: ID.into(),
                class: format!("{ID}/position/{name}"),
                what: format!("{name}: Ink's rules give {want:?}, the engine gives {got:?}"),
                artefact: json!({"check": "c07", "family": "position", "name": name, "source": src, "expected": want}),
            });
        }
    }
    for f in &fams {
        if let Some(c) = (0..f.size).step_by((f.size / 7).max(1)).filter_map(|i| case_of(f, i)).find(|c| c.want.is_ok()) {
            stats.sample(json!({"family": f.name, "index": c.index, "source": c.src, "ink_rules_value": c.want.as_ref().unwrap().iter().map(render_ev).collect::<Vec<_>>()}));
        }
    }
    let extra = vec![
        ("evaluations", json!(stats.get("cases") + stats.get("cases::expected-story-error"))),
        ("distinct_nontrivial", json!(stats.n_distinct("shapes"))),
        ("rule", json!("case = one well-typed expression tree (per the independent evaluator) compiled and played; evaluations = cases compared at print, store, stored-print, origin and store-over-list observation points; distinct = distinct (operator shape, operand types) combinations")),
        ("exhaustive", json!(exhaustive)),
        (
            "bounds",
            json!({
                "families": fams.iter().map(|f| json!({"name": f.name, "atoms": f.atoms.len(), "candidates": f.size})).collect::<Vec<_>>(),
                "binary_operators": BINARY.iter().map(|b| format!("{b:?}")).collect::<Vec<_>>(),
                "unary_operators": UNARY.iter().map(|u| u.name()).collect::<Vec<_>>(),
                "depth": 2,
                "chain_length": if tier == Tier::Quick { 3 } else { 4 },
                "lists": expr::header(),
                "distinct_values": stats.n_distinct("values"),
            }),
        ),
        ("caps_hit", json!(if exhaustive { vec![] } else { vec![format!("wall cap {secs}s: {done}/{} chunks", items.len())] })),
    ];
    finish(
        ID,
        tier,
        "exploration",
        &stats,
        extra,
        vec![
            "the expected values come from harness/src/ink/expr.rs, written from the Ink documentation and the reference implementation's rules (RULES.md E1-E9); it shares no code with the runtime or the compiler".into(),
            "float operands and results are restricted to values exactly representable with 6 binary fraction digits (the property's quantifier); other float results are counted as inexact-float and not compared".into(),
            "which of several items with the same extreme value LIST_MIN/LIST_MAX returns is not specified by Ink: every such item is accepted".into(),
            "POW: only the printed value is compared (the result type differs between reference runtimes)".into(),
        ],
        started,
    )
}

pub fn replay(art: &Value) -> String {
    let name = art["family"].as_str().unwrap_or("pair").to_string();
    if name == "position" {
        let got = match play(art["source"].as_str().unwrap_or(""), 0) {
            Run::Rejected(e) => format!("rejected by the compiler: {e}"),
            Run::CompilerPanic(e) => format!("compiler panic: {e}"),
            Run::Played(p) => format!("lines {:?} problem {:?}", p.lines.iter().filter(|l| !l.is_empty()).collect::<Vec<_>>(), p.problem),
        };
        return format!("{}: expected {} got {got}", art["name"], art["expected"]);
    }
    let index = art["index"].as_u64().unwrap_or(0) as usize;
    let want_src = art["source"].as_str().unwrap_or("");
    for tier in [Tier::Quick, Tier::Thorough] {
        for f in families(tier) {
            if f.name == name {
                if let Some(c) = case_of(&f, index) {
                    if c.src == want_src {
                        return match judge_single(&c) {
                            Some((aspect, what)) => format!("{aspect}: {what}"),
                            None => format!("`{}` agrees with Ink's rules ({:?})", c.src, c.want.as_ref().map(|v| v.iter().map(render_ev).collect::<Vec<_>>())),
                        };
                    }
                }
            }
        }
    }
    format!("case {name}#{index} not found")
}
