//! C08 — how the host slices continuation never changes the story.
//! E-hx with the virtual clock (hook H3): for every choice path of every pool program and every
//! line on it, every single pause position p in 1..n-1 (n = interpreter steps of that line), the
//! pause-after-every-step schedule over the whole path and (thorough) all pairs p<q in a line
//! must give the same per-line text/tags/choices and the same final globals, counts, callback log
//! and save as unsliced play. At every pause point each public method is called once: guarded
//! (state-changing) calls must be refused and a refused call must change nothing.
use super::{Tier, common::*, finish};
use crate::{
    hx::{self, sigma_play},
    inst::{Inst, Op, Setup, Val, first_diff, hist_to_json},
    prog::Prog,
    report::{RunCtl, Stats, Violation, par_cases},
};
use serde_json::{Value, json};
use std::rc::Rc;

pub const ID: &str = "C08";

/// one entry per *line or choice* of a path: the result and what the host sees afterwards
fn transcript(prog: &Rc<Prog>, setup: &Setup, ops: &[Op]) -> Option<(Vec<Value>, Value, Vec<u64>, bool)> {
    let mut inst = Inst::new(prog, setup).ok()?;
    let mut entries = vec![];
    let mut steps = vec![];
    let mut i = 0;
    while i < ops.len() {
        let op = &ops[i];
        let was_pending = inst.async_pending;
        let r = inst.apply(op);
        steps.push(inst.last_steps);
        if was_pending && !matches!(op, Op::ContAsync(_) | Op::ContAsyncFinish | Op::Cont) {
            // a probe call at a pause point: its result is judged separately
            i += 1;
            continue;
        }
        match op {
            Op::ContAsync(_) => {
                // a slice: either pending (no entry yet) or it completed the line
                if let Some(t) = r.strip_prefix("ok:done:") {
                    let o = inst.observe(false);
                    entries.push(json!({"r": format!("ok:{t}"), "tags": o["tags"], "choices": o["choices"], "can": o["can_continue"]}));
                } else if r != "ok:pending" {
                    entries.push(json!({"r": r}));
                }
            }
            Op::Cont | Op::ContAsyncFinish | Op::Choose(_) => {
                let o = inst.observe(false);
                entries.push(json!({"r": r, "tags": o["tags"], "choices": o["choices"], "can": o["can_continue"]}));
            }
            _ => {
                // a probe call at a pause point: its result is judged separately
            }
        }
        i += 1;
    }
    let mut fin = inst.observe(true);
    if let Some(m) = fin.as_object_mut() {
        // current text/tags of the last line are already in the entries
        m.remove("path");
    }
    Some((entries, fin, steps, inst.fuel_exhausted))
}

fn probe_ops(prog: &Prog, setup: &Setup) -> Vec<(&'static str, Op, bool)> {
    // (kind, op, must_be_refused)
    let g = prog.globals.first().cloned().unwrap_or_else(|| "x".into());
    let k = prog.plain_knots.first().cloned().unwrap_or_else(|| "no_knot".into());
    let mut v = vec![
        ("set_variable", Op::SetVar(g.clone(), Val::Int(7)), true),
        ("choose_choice_index", Op::Choose(0), true),
        ("choose_path_string-noreset", Op::ChoosePath(k.clone(), false), true),
        ("choose_path_string-reset", Op::ChoosePath(k, true), true),
        ("switch_flow", Op::SwitchFlow("fx".into()), true),
        // returns (), so a refusal can only show as "changed nothing" (compared below)
        ("switch_to_default_flow", Op::SwitchDefault, false),
        ("remove_flow", Op::RemoveFlow("f1".into()), true),
        ("load_state", Op::LoadInto, true),
        ("reset_state", Op::Reset, true),
        ("observe_variable", Op::Observe(2, g), true),
        ("remove_variable_observer", Op::Unobserve(0, None), true),
        ("bind_external_function", Op::Bind("brand_new_ext".into(), true), true),
        ("continue_maximally", Op::ContMax, true),
        ("get_current_text", Op::GetText, true),
        ("get_current_tags", Op::GetTags, true),
        ("save_state", Op::Save, false),
    ];
    if let Some((f, np)) = prog.functions.first() {
        v.push(("evaluate_function", Op::Eval(f.clone(), (0..*np).map(|_| Val::Int(1)).collect()), true));
    }
    if setup.bind_externals.is_some()
        && let Some(e) = prog.externals.first()
    {
        v.push(("unbind_external_function", Op::Unbind(e.clone()), true));
    }
    v
}

fn compare(
    prog: &Rc<Prog>,
    setup: &Setup,
    base: &(Vec<Value>, Value),
    variant: &[Op],
    kind: &str,
    detail: &str,
    stats: &mut Stats,
) {
    let Some((e, f, _s, fuel)) = transcript(prog, setup, variant) else { return };
    if fuel {
        stats.inc("fuel_exhausted");
        return;
    }
    stats.inc("schedules");
    stats.add("transitions", variant.len() as u64);
    stats.see("states", &f.to_string());
    let mut diff: Option<String> = None;
    if e != base.0 {
        let idx = e.iter().zip(base.0.iter()).position(|(a, b)| a != b).unwrap_or(e.len().min(base.0.len()));
        let field = match (e.get(idx), base.0.get(idx)) {
            (Some(a), Some(b)) => first_diff(a, b).unwrap_or_default(),
            _ => "length".into(),
        };
        diff = Some(format!("line[{field}]"));
    } else if let Some(fd) = first_diff(&f, &base.1) {
        diff = Some(format!("final.{}", fd.split('.').next().unwrap_or("")));
    }
    if let Some(d) = diff {
        stats.violation(Violation {
            property: ID.into(),
            class: format!("{ID}/{kind}/{d}{detail}"),
            what: format!("sliced play differs from unsliced play in {d} ({kind}, program {})", prog.name),
            artefact: hx::artefact("c08", prog, setup, json!({"variant": hist_to_json(variant), "kind": kind, "sliced_lines": e, "unsliced_lines": base.0, "sliced_final": f, "unsliced_final": base.1})),
        });
    }
}

pub fn check_program(prog: &Rc<Prog>, setup: &Setup, depth: usize, pairs: bool, probes: bool, stats: &mut Stats) {
    check_program_sharded(prog, setup, depth, pairs, probes, stats, 0, 1)
}

/// the same for the choice paths whose index is `shard` modulo `nshards`
#[allow(clippy::too_many_arguments)]
pub fn check_program_sharded(prog: &Rc<Prog>, setup: &Setup, depth: usize, pairs: bool, probes: bool, stats: &mut Stats, shard: usize, nshards: usize) {
    // all complete choice paths up to `depth` ops
    // paths of the default flow, and the same paths played inside a named flow
    let sig = |o: &Value, h: &[Op]| {
        let mut v = sigma_play(o);
        if h.is_empty() && probes {
            v.push(Op::SwitchFlow("f1".into()));
        }
        v
    };
    let mut paths: Vec<Vec<Op>> = vec![];
    hx::explore(prog, setup, depth, &sig, false, stats, &mut |h, _r, o, _i, _s| {
        let leaf = h.len() == depth || sigma_play(o).is_empty();
        if leaf && !h.is_empty() {
            paths.push(h.to_vec());
        }
        true
    });
    if shard == 0 {
        stats.add("paths", paths.len() as u64);
        if let Some(p) = paths.iter().max_by_key(|p| p.len()) {
            stats.sample(json!({"program": prog.name, "path": crate::inst::hist_to_json(p), "schedules": "each Cont of the path replaced by ContAsync(k), ContAsyncFinish for every k below the line's step count, and by a pause after every step"}));
        }
    }
    for path in paths.iter().enumerate().filter(|(i, _)| i % nshards == shard).map(|(_, p)| p) {
        let Some((be, bf, steps, fuel)) = transcript(prog, setup, path) else { continue };
        if fuel {
            stats.inc("fuel_exhausted");
            continue;
        }
        stats.inc("traces");
        let base = (be, bf);
        // (1) every single pause position of every line
        for (j, op) in path.iter().enumerate() {
            if *op != Op::Cont {
                continue;
            }
            let n = steps[j];
            stats.max("max::steps_per_line", n);
            for p in 1..n.max(1) {
                let mut v = path[..j].to_vec();
                v.push(Op::ContAsync(p));
                v.push(Op::ContAsyncFinish);
                v.extend_from_slice(&path[j + 1..]);
                compare(prog, setup, &base, &v, "single-pause", "", stats);
                stats.inc("single_pause_positions");
                // (3) all pairs p<q in this line
                if pairs && n <= 25 {
                    for q in 1..(n - p) {
                        let mut v = path[..j].to_vec();
                        v.push(Op::ContAsync(p));
                        v.push(Op::ContAsync(q));
                        v.push(Op::ContAsyncFinish);
                        v.extend_from_slice(&path[j + 1..]);
                        compare(prog, setup, &base, &v, "two-pauses", "", stats);
                    }
                }
                // (4) probes at this pause point (quick tier: at the first, middle and last pause
                // position of the line; thorough: at every one)
                if probes && (pairs || p == 1 || p == n / 2 || p + 1 == n) {
                    for (kind, probe, must_refuse) in probe_ops(prog, setup) {
                        let mut v = path[..j].to_vec();
                        v.push(Op::ContAsync(p));
                        v.push(probe.clone());
                        let Ok((inst, rs)) = Inst::build(prog, setup, &v) else { continue };
                        if inst.fuel_exhausted {
                            continue;
                        }
                        stats.inc("probes");
                        if rs[rs.len() - 2] != "ok:pending" {
                            continue; // the slice finished the line: not a pause point
                        }
                        let r = rs.last().unwrap().clone();
                        let art = |extra: Value| hx::artefact("c08-probe", prog, setup, json!({"variant": hist_to_json(&v), "probe": kind, "detail": extra}));
                        if let Some(pc) = r.strip_prefix("panic:") {
                            stats.violation(Violation { property: ID.into(), class: format!("{ID}/probe-panic/{kind}/{pc}"), what: format!("{kind} during an unfinished continue_async panicked: {pc}"), artefact: art(json!({"result": r})) });
                            continue;
                        }
                        if must_refuse && r.starts_with("ok") {
                            stats.violation(Violation { property: ID.into(), class: format!("{ID}/accepted-while-async/{kind}"), what: format!("{kind} was accepted ({r}) while a time-limited continue is unfinished"), artefact: art(json!({"result": r})) });
                            continue;
                        }
                        // refused (or harmless): the rest of the sliced run must be unchanged
                        let mut rest = v.clone();
                        rest.push(Op::ContAsyncFinish);
                        rest.extend_from_slice(&path[j + 1..]);
                        // ... compared with the same sliced run without the probe
                        let mut plain = path[..j].to_vec();
                        plain.push(Op::ContAsync(p));
                        plain.push(Op::ContAsyncFinish);
                        plain.extend_from_slice(&path[j + 1..]);
                        if let Some((pe, pf, _, false)) = transcript(prog, setup, &plain) {
                            compare(prog, setup, &(pe, pf), &rest, "probe-changed-story", &format!("/{kind}"), stats);
                        }
                    }
                }
            }
        }
        // (2) pause after every step over the whole path
        let mut v = vec![];
        for (j, op) in path.iter().enumerate() {
            if *op == Op::Cont {
                for _ in 1..steps[j].max(1) {
                    v.push(Op::ContAsync(1));
                }
                v.push(Op::ContAsyncFinish);
            } else {
                v.push(op.clone());
            }
        }
        compare(prog, setup, &base, &v, "pause-every-step", "", stats);
    }
}

pub fn run(tier: Tier) -> i32 {
    let started = std::time::Instant::now();
    let (depth, k, a, pairs, secs) = match tier {
        Tier::Quick => (8, 1, 16, false, 50),
        Tier::Thorough => (10, 2, 12, true, 2400),
    };
    let set = program_set(k, a, 0);
    let ctl = RunCtl::new(secs);
    const SHARDS: usize = 6;
    let (stats, done) = par_cases(set.len() * SHARDS, &ctl, |n, st| {
        let (i, shard) = (n / SHARDS, n % SHARDS);
        if let Some(p) = set[i].load() {
            for safe in [false, true] {
                let mut su = super::c09::setup_for(&p);
                su.bind_externals = Some(safe);
                // probes once per program (with unsafe externals)
                check_program_sharded(&p, &su, depth, pairs, !safe, st, shard, SHARDS);
                if p.externals.is_empty() {
                    break;
                }
            }
            if shard == 0 {
                st.inc("programs");
            }
        } else if shard == 0 {
            st.inc("rejected_by_compiler");
        }
    });
    let done = done / SHARDS;
    let mut extra = mc_extras(
        &stats,
        json!({"path_depth_ops": depth, "segment_family": [k, a], "programs": set.len(), "programs_done": done,
               "pause_placements": if pairs { "every single position, all pairs p<q per line (lines <= 25 steps), pause after every step" } else { "every single position, pause after every step; host-call probes at the first, middle and last pause position of every line" }}),
        set.len(),
        done,
        secs,
    );
    extra.push(("schedules", json!(stats.get("schedules"))));
    finish(
        ID,
        tier,
        "model_checking",
        &stats,
        extra,
        vec![
            "the virtual clock (hook H3) makes continue_async pause after exactly k interpreter steps; the wall clock never fires (limit 1e9 ms)".into(),
            "a state is (history, pause vector); every schedule is executed on the real Story".into(),
        ],
        started,
    )
}

pub fn replay(art: &Value) -> String {
    let Some(prog) = prog_from_artefact(art) else { return "program no longer compiles".into() };
    let setup = hx::setup_from_json(&art["setup"]);
    let v = crate::inst::hist_from_json(&art["variant"]);
    match Inst::build(&prog, &setup, &v) {
        Ok((mut i, rs)) => format!("results {:?}\nfinal {}", rs, i.observe(true)),
        Err(e) => format!("construct failed: {e}"),
    }
}
