//! C09 — a rejected host call leaves the story exactly as it was.
//! E-hx: for every node of the play tree (every valid history prefix, also inside a named flow)
//! inject every kind of invalid call; the injected call must return Err (no panic, no Ok) and
//! the instance must be bisimilar (bounded) to the one without the injection.
use super::{Tier, finish};
use crate::{
    hx::{self, LockCfg, Side, artefact, mismatch_json, sigma_play},
    inst::{Inst, Op, Setup, Val, hist_to_json},
    pool,
    prog::Prog,
    report::{RunCtl, Stats, Violation, par_cases},
};
use serde_json::{Value, json};
use std::rc::Rc;

pub const ID: &str = "C09";

/// every kind of invalid call applicable in the state `obs` (kind name, op)
pub fn invalid_ops(prog: &Prog, obs: &Value, setup: &Setup) -> Vec<(&'static str, Op)> {
    let mut v: Vec<(&'static str, Op)> = vec![];
    let can = obs["can_continue"].as_bool().unwrap_or(false);
    let n = obs["choices"].as_array().map(|a| a.len()).unwrap_or(0);
    if !can {
        v.push(("cont-when-cannot-continue", Op::Cont));
        v.push(("contasync-when-cannot-continue", Op::ContAsync(3)));
    }
    v.push(("choose-out-of-range", Op::Choose(n)));
    v.push(("choose-max", Op::Choose(usize::MAX)));
    v.push(("setvar-undeclared", Op::SetVar("no_such_var".into(), Val::Int(1))));
    v.push(("observe-undeclared", Op::Observe(2, "no_such_var".into())));
    v.push(("eval-empty-name", Op::Eval("".into(), vec![])));
    v.push(("eval-blank-name", Op::Eval("  ".into(), vec![])));
    v.push(("eval-unknown", Op::Eval("no_such_fn".into(), vec![])));
    if let Some((f, np)) = prog.functions.iter().find(|(_, np)| *np >= 1) {
        let mut args = vec![Val::Divert("nowhere".into())];
        for _ in 1..*np {
            args.push(Val::Int(1));
        }
        v.push(("eval-bad-arg-type", Op::Eval(f.clone(), args)));
    }
    v.push(("choosepath-unknown-reset", Op::ChoosePath("no_such_knot".into(), true)));
    v.push(("choosepath-unknown-noreset", Op::ChoosePath("no_such_knot".into(), false)));
    if let Some(k) = prog.knots.first() {
        v.push((
            "choosepath-bad-arg-type",
            Op::ChoosePathArgs(k.clone(), false, vec![Val::Divert("nowhere".into())]),
        ));
    }
    v.push(("removeflow-unknown", Op::RemoveFlow("no_such_flow".into())));
    v.push(("removeflow-default", Op::RemoveFlow("DEFAULT_FLOW".into())));
    v.push(("unobserve-unregistered-all", Op::Unobserve(2, None)));
    if let Some(g) = prog.globals.first() {
        v.push(("unobserve-unregistered-var", Op::Unobserve(2, Some(g.clone()))));
    }
    v.push(("unobserve-undeclared-var", Op::Unobserve(0, Some("no_such_var".into()))));
    if setup.bind_externals.is_some() {
        for (i, e) in prog.externals.iter().enumerate().take(2) {
            if i == 0 {
                v.push(("bind-twice", Op::Bind(e.clone(), true)));
            }
            // a refused re-bind must leave the first handler (and its look-ahead flag) in place:
            // the alternative handler answers -999 and logs "extalt:", so any later call shows it
            v.push(("bind-twice-other-handler", Op::BindAlt(e.clone(), true)));
            v.push(("bind-twice-other-flag", Op::BindAlt(e.clone(), false)));
        }
    }
    v.push(("unbind-unbound", Op::Unbind("no_such_ext".into())));
    v
}

fn sigma_cont(obs: &Value, suffix: &[Op]) -> Vec<Op> {
    let mut v = sigma_play(obs);
    if suffix.is_empty() {
        v.push(Op::SwitchFlow("fx".into()));
        v.push(Op::SwitchDefault);
    }
    v
}

pub fn setup_for(prog: &Prog) -> Setup {
    let mut observers = vec![];
    if let Some(g) = prog.globals.first() {
        observers.push((0, g.clone()));
    }
    if let Some(g) = prog.globals.get(1) {
        observers.push((1, g.clone()));
        observers.push((0, g.clone()));
    }
    Setup {
        bind_externals: Some(true),
        allow_fallbacks: true,
        handler: false,
        observers,
        seed: None,
    }
}

pub fn check_program(prog: &Rc<Prog>, h: usize, d: usize, stats: &mut Stats) {
    let setup = setup_for(prog);
    // prefixes: play tree from the start, and play tree inside a named flow
    let sig = |o: &Value, _s: &[Op]| sigma_play(o);
    let mut prefixes = hx::histories(prog, &setup, h, &sig, stats);
    let sig_flow = |o: &Value, s: &[Op]| {
        if s.is_empty() { vec![Op::SwitchFlow("fx".into())] } else { sigma_play(o) }
    };
    for (hist, o) in hx::histories(prog, &setup, h, &sig_flow, stats) {
        if !hist.is_empty() {
            prefixes.push((hist, o));
        }
    }
    stats.add("prefixes", prefixes.len() as u64);
    let norm = |_v: &mut Value| {};
    for (prefix, obs) in &prefixes {
        if obs.get("dead").is_some() {
            continue;
        }
        for (kind, inv) in invalid_ops(prog, obs, &setup) {
            stats.inc("injections");
            stats.see("injection_kinds", kind);
            let mut with = prefix.clone();
            with.push(inv.clone());
            // 1. the injected call itself
            let Ok((inst, rs)) = Inst::build(prog, &setup, &with) else { continue };
            if inst.fuel_exhausted {
                stats.inc("fuel_exhausted");
                continue;
            }
            let r = rs.last().unwrap().clone();
            let mk = |class: String, what: String, extra: Value| Violation {
                property: ID.into(),
                class,
                what,
                artefact: artefact(
                    "c09",
                    prog,
                    &setup,
                    json!({"prefix": hist_to_json(prefix), "injected": inv.to_json(), "kind": kind, "detail": extra}),
                ),
            };
            if r.starts_with("panic:") {
                stats.violation(mk(
                    format!("C09/panic/{kind}/{}", &r[6..]),
                    format!("invalid call {kind} panicked: {r}"),
                    json!({"result": r}),
                ));
                continue;
            }
            if r.starts_with("ok") {
                stats.violation(mk(
                    format!("C09/ok-instead-of-err/{kind}"),
                    format!("invalid call {kind} returned {r} instead of an error"),
                    json!({"result": r}),
                ));
                // still check that it changed nothing
            } else {
                stats.inc("injected_err");
            }
            // 2. bounded bisimulation with the uninjected history
            let a = Side { setup: &setup, pre: &with };
            let b = Side { setup: &setup, pre: prefix };
            let cfg = LockCfg {
                depth: d,
                with_save: true,
                sigma: &sigma_cont,
                norm: &norm,
                compare_results: true,
            };
            let out = hx::lockstep(prog, &a, &b, &cfg, stats);
            if let Some(m) = out.mismatch {
                let top = m.field.split('.').next().unwrap_or("").to_string();
                stats.violation(mk(
                    format!("C09/trace/{kind}/{top}"),
                    format!(
                        "after rejected call {kind} the story differs from the uninjected run in `{}` after {} further op(s)",
                        m.field,
                        m.suffix.len()
                    ),
                    mismatch_json(&m),
                ));
            }
        }
    }
}

pub fn programs(tier: Tier) -> (Vec<Rc<Prog>>, usize) {
    let (mut progs, rej) = pool::base_programs();
    let mut rejected = rej.len();
    let (k, a) = match tier {
        Tier::Quick => (2, 12),
        Tier::Thorough => (2, 16),
    };
    let (seg, rej2) = pool::seg_programs(k, a);
    rejected += rej2.len();
    progs.extend(seg);
    (progs, rejected)
}

pub fn run(tier: Tier) -> i32 {
    let started = std::time::Instant::now();
    let (h, d, secs) = match tier {
        Tier::Quick => (3, 2, 50),
        Tier::Thorough => (4, 3, 2400),
    };
    // programs are compiled per thread (Rc), so ship sources
    let (progs, rejected) = programs(tier);
    let sources: Vec<(String, String)> = progs
        .iter()
        .map(|p| (p.name.clone(), p.source.clone().unwrap()))
        .collect();
    drop(progs);
    let ctl = RunCtl::new(secs);
    let (mut stats, done) = par_cases(sources.len(), &ctl, |i, st| {
        let (n, s) = &sources[i];
        if let crate::prog::CompileOutcome::Ok(p) = Prog::from_source(n, s) {
            check_program(&p, h, d, st);
            st.inc("programs");
        }
    });
    stats.add("rejected_by_compiler", rejected as u64);
    let exhaustive = done == sources.len();
    let states = stats.n_distinct("states").max(1);
    let extra = vec![
        ("states", json!(states)),
        ("transitions", json!(stats.get("transitions").max(1))),
        ("traces_validated_against_impl", json!(stats.get("traces"))),
        ("exhaustive", json!(exhaustive)),
        ("bounds", json!({"prefix_depth": h, "lockstep_depth": d, "programs": sources.len(), "programs_done": done, "injection_kinds": stats.n_distinct("injection_kinds")})),
        ("caps_hit", json!(if exhaustive { vec![] } else { vec![format!("wall cap {secs}s: {done}/{} programs", sources.len())] })),
    ];
    stats.sample(json!({"program": sources[0].0, "prefix": ["Cont"], "injected": {"Choose": 18446744073709551615u64}}));
    finish(
        ID,
        tier,
        "model_checking",
        &stats,
        extra,
        vec![
            "state = history (fresh instance + replay); observation through public getters + canonicalised save_state".into(),
            "every explored trace runs on the real Story; no model is involved".into(),
        ],
        started,
    )
}

/// replay one artefact: returns a description of what happened (run twice by the caller)
pub fn replay(art: &Value) -> String {
    let name = art["program_name"].as_str().unwrap_or("replay");
    let src = art["source"].as_str().unwrap();
    let crate::prog::CompileOutcome::Ok(prog) = Prog::from_source(name, src) else {
        return "program no longer compiles".into();
    };
    let setup = hx::setup_from_json(&art["setup"]);
    let prefix = crate::inst::hist_from_json(&art["prefix"]);
    let inv = Op::from_json(&art["injected"]);
    let mut with = prefix.clone();
    with.push(inv);
    let mut st = Stats::default();
    let mut out = String::new();
    if let Ok((_i, rs)) = Inst::build(&prog, &setup, &with) {
        out.push_str(&format!("injected result: {}\n", rs.last().unwrap()));
    }
    let norm = |_v: &mut Value| {};
    let cfg = LockCfg { depth: 3, with_save: true, sigma: &sigma_cont, norm: &norm, compare_results: true };
    let r = hx::lockstep(
        &prog,
        &Side { setup: &setup, pre: &with },
        &Side { setup: &setup, pre: &prefix },
        &cfg,
        &mut st,
    );
    match r.mismatch {
        Some(m) => out.push_str(&format!("MISMATCH {}", mismatch_json(&m))),
        None => out.push_str("no mismatch"),
    }
    out
}
