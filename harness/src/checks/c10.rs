//! C10 — flows are independent except for global variables and counts.
//! E-hx projection: programs made of two mutually disjoint, error-free flow scripts; for every
//! pair of per-flow operation sequences, ALL interleavings (every merge of the two sequences, the
//! explorer inserting the switch_flow calls) must give each flow exactly the transcript it produces
//! when run alone. At every interleaving point optionally: save + load into a fresh story,
//! removal of the other flow, a switch to a third flow and back.
use super::{Tier, common::*, finish};
use crate::{
    hx::{self, sigma_play},
    inst::{Inst, Op, Setup, hist_to_json},
    prog::{CompileOutcome, Prog},
    report::{RunCtl, Stats, Violation, par_cases},
};
use serde_json::{Value, json};
use std::rc::Rc;

pub const ID: &str = "C10";

/// flow scripts; `@` is replaced by the flow's suffix (a / b). Every identifier carries the
/// suffix, so two scripts touch disjoint knots and variables. No TURNS_SINCE / RANDOM (the turn
/// counter and the random state are deliberately global).
const SCRIPTS: &[(&str, &str, &str)] = &[
    ("lines", "VAR v_@ = 0\n", "=== k@ ===\n~ v_@ = v_@ + 1\nFirst @ {v_@}.\nSecond @. # t@\n* one @\n    Took one @ {v_@}.\n    -> k@_end\n* two @ [x]\n    ~ v_@ = v_@ + 10\n    Took two @ {v_@}.\n    -> k@_end\n=== k@_end ===\nEnd @ {v_@}.\n-> DONE\n"),
    ("tunnel", "VAR v_@ = 0\n", "=== k@ ===\n~ temp t = 5\nStart @.\n-> k@_tun ->\nBack @ {t} {v_@}.\n+ again @\n    ~ v_@ = v_@ + 1\n    -> k@_tun ->\n    After again @ {t} {v_@}.\n    -> DONE\n* stop @\n    -> DONE\n=== k@_tun ===\n~ temp t = 9\n~ v_@ = v_@ + 100\nIn tunnel @ {t}.\n->->\n"),
    ("thread", "VAR v_@ = 0\n", "=== k@ ===\nMain @.\n<- k@_th(3)\n* main choice @\n    Main chosen @ {v_@}.\n    -> DONE\n=== k@_th(p) ===\nThread @ {p}.\n* thread choice @\n    ~ v_@ = v_@ + p\n    Thread chosen @ {v_@}.\n    -> DONE\n"),
    ("func", "VAR v_@ = 0\n", "=== k@ ===\nLine @ {f@_val(2)} <>\nglued @.\n~ f@_txt()\nSeq @ {one|two|three}.\n* pick @ [{f@_val(1)}]\n    Picked @ {v_@}.\n- Done @.\n-> DONE\n=== function f@_val(n) ===\n~ v_@ = v_@ + n\n~ return v_@\n=== function f@_txt() ===\nText one @.\nText two @ {v_@}.\n"),
    ("loop", "VAR v_@ = 0\n", "=== k@ ===\n~ v_@ = v_@ + 1\nLoop @ {v_@} {k@}.\n+ {v_@ < 3} more @ -> k@\n* once @\n    Once @.\n    -> k@\n* -> \n    Fallback @.\n    -> DONE\n"),
    // an operand waits on the evaluation stack while a function prints lines (the flow can be left
    // and re-entered between them); a knot entered by a host jump takes its parameter from there too
    ("operand", "VAR s_@ = \"\"\n", "=== k@ ===\nBefore @.\n~ s_@ = \"@\" + f@_lines() + \"@\"\nSum @ {s_@}.\n* more @\n    ~ s_@ = \"[@\" + f@_lines() + \"@]\"\n    Again @ {s_@}.\n- -> DONE\n=== function f@_lines() ===\nOne @.\nTwo @.\n~ return \"-\"\n"),
    ("list", "LIST l_@ = (a@), b@, c@\nVAR v_@ = 0\n", "=== k@ ===\n~ l_@ += b@\nList @ {l_@}.\n* grow @\n    ~ l_@ += c@\n    ~ v_@ = LIST_COUNT(l_@)\n    Grown @ {l_@} {v_@}.\n* shrink @\n    ~ l_@ -= a@\n    Shrunk @ {l_@}.\n- Fin @ {LIST_MAX(l_@)}.\n-> DONE\n"),
];

pub fn program(i: usize, j: usize) -> (String, String) {
    let (na, da, sa) = SCRIPTS[i];
    let (nb, db, sb) = SCRIPTS[j];
    let src = format!(
        "{}{}Root line.\n-> DONE\n{}{}",
        da.replace('@', "a"),
        db.replace('@', "b"),
        sa.replace('@', "a"),
        sb.replace('@', "b")
    );
    (format!("flow-{na}-{nb}"), src)
}

#[derive(Clone, Debug)]
struct FlowSpec {
    /// None = the default flow
    name: Option<String>,
    knot: String,
    sfx: char,
}

impl FlowSpec {
    fn switch(&self) -> Op {
        match &self.name {
            Some(n) => Op::SwitchFlow(n.clone()),
            None => Op::SwitchDefault,
        }
    }
}

fn own_obs(o: &Value, f: &FlowSpec) -> Value {
    let mut g = serde_json::Map::new();
    if let Some(m) = o["globals"].as_object() {
        for (k, v) in m {
            if k.ends_with(&format!("_{}", f.sfx)) {
                g.insert(k.clone(), v.clone());
            }
        }
    }
    let mut c = serde_json::Map::new();
    if let Some(m) = o["counts"].as_object() {
        for (k, v) in m {
            if k.starts_with(&format!("k{}", f.sfx)) || k.starts_with(&format!("f{}", f.sfx)) {
                c.insert(k.clone(), v.clone());
            }
        }
    }
    json!({"can": o["can_continue"], "text": o["text"], "tags": o["tags"], "choices": o["choices"], "globals": g, "counts": c, "errors": o["errors"], "dead": o.get("dead")})
}

/// run `ops` (each tagged with the flow it belongs to, or None for injected ops); returns per
/// flow the list of (result, own observation) after each of its ops
fn run_tagged(prog: &Rc<Prog>, setup: &Setup, ops: &[(Option<usize>, Op)], flows: &[FlowSpec]) -> Option<(Vec<Vec<Value>>, bool)> {
    let mut inst = Inst::new(prog, setup).ok()?;
    let mut out: Vec<Vec<Value>> = vec![vec![]; flows.len()];
    for (tag, op) in ops {
        let r = inst.apply(op);
        if let Some(fi) = tag {
            let o = inst.observe(false);
            out[*fi].push(json!({"op": op.to_json(), "r": r, "obs": own_obs(&o, &flows[*fi])}));
        } else if r.starts_with("panic") || r.starts_with("err") {
            out[0].push(json!({"injected": op.to_json(), "r": r}));
        }
    }
    Some((out, inst.fuel_exhausted))
}

/// all play paths (after the flow's start ops) up to `len` ops, run alone
fn alone_paths(prog: &Rc<Prog>, setup: &Setup, f: &FlowSpec, len: usize, stats: &mut Stats) -> Vec<Vec<Op>> {
    let start: Vec<Op> = match &f.name {
        Some(n) => vec![Op::SwitchFlow(n.clone()), Op::ChoosePath(f.knot.clone(), false)],
        None => vec![Op::ChoosePath(f.knot.clone(), false)],
    };
    let n0 = start.len();
    let sig = move |o: &Value, h: &[Op]| {
        if h.len() < n0 { vec![start[h.len()].clone()] } else { sigma_play(o) }
    };
    let mut paths = vec![];
    hx::explore(prog, setup, n0 + len, &sig, false, stats, &mut |h, _r, o, _i, _s| {
        if h.len() >= n0 && (h.len() == n0 + len || sigma_play(o).is_empty()) {
            paths.push(h[n0..].to_vec());
        }
        true
    });
    paths
}

fn merges(a: usize, b: usize) -> Vec<Vec<bool>> {
    // all sequences with `a` falses and `b` trues
    fn rec(a: usize, b: usize, cur: &mut Vec<bool>, out: &mut Vec<Vec<bool>>) {
        if a == 0 && b == 0 {
            out.push(cur.clone());
            return;
        }
        if a > 0 {
            cur.push(false);
            rec(a - 1, b, cur, out);
            cur.pop();
        }
        if b > 0 {
            cur.push(true);
            rec(a, b - 1, cur, out);
            cur.pop();
        }
    }
    let mut out = vec![];
    rec(a, b, &mut vec![], &mut out);
    out
}

#[derive(Clone, Copy, PartialEq, Debug)]
enum Inj {
    None,
    SaveLoad,
    /// save+load before step `at` and again before step `at + 1`: the second save is taken from a
    /// story that was itself loaded, one operation later (no flow switch in between whenever the
    /// two steps belong to the same flow)
    SaveLoadTwice,
    RemoveOther,
    AwayAndBack,
}

/// build the interleaved op list; `inj` is applied before step `at` of the merge
fn interleave(flows: &[FlowSpec], paths: [&Vec<Op>; 2], merge: &[bool], inj: Inj, at: usize) -> Vec<(Option<usize>, Op)> {
    let mut ops: Vec<(Option<usize>, Op)> = vec![];
    let mut idx = [0usize; 2];
    let mut started = [false; 2];
    let mut cur: Option<usize> = None; // which flow is current (None = default flow untouched)
    // the default flow is current at the start
    let default_idx = flows.iter().position(|f| f.name.is_none());
    let mut removed: Option<usize> = None;
    for (step, &m) in merge.iter().enumerate() {
        let fi = m as usize;
        if step == at + 1 && inj == Inj::SaveLoadTwice {
            ops.push((None, Op::LoadFresh));
        }
        if step == at {
            match inj {
                Inj::None => {}
                Inj::SaveLoad | Inj::SaveLoadTwice => ops.push((None, Op::LoadFresh)),
                Inj::AwayAndBack => {
                    ops.push((None, Op::SwitchFlow("zz".into())));
                    match cur {
                        Some(c) => ops.push((None, flows[c].switch())),
                        None => ops.push((None, Op::SwitchDefault)),
                    }
                }
                Inj::RemoveOther => {
                    // remove the flow that is NOT about to move (if it is a named flow that exists)
                    let other = 1 - fi;
                    if let Some(n) = &flows[other].name
                        && started[other]
                    {
                        // must not be the current flow for "removing in one flow never changes another"
                        if cur == Some(other) {
                            ops.push((None, flows[fi].switch()));
                            if !started[fi] {
                                // switching creates the flow; its start ops follow below
                            }
                            cur = Some(fi);
                        }
                        ops.push((None, Op::RemoveFlow(n.clone())));
                        removed = Some(other);
                    }
                }
            }
        }
        if removed == Some(fi) {
            continue; // the removed flow's remaining ops are dropped
        }
        if cur != Some(fi) && !(cur.is_none() && default_idx == Some(fi)) {
            ops.push((None, flows[fi].switch()));
        }
        cur = Some(fi);
        if !started[fi] {
            started[fi] = true;
            ops.push((None, Op::ChoosePath(flows[fi].knot.clone(), false)));
        }
        ops.push((Some(fi), paths[fi][idx[fi]].clone()));
        idx[fi] += 1;
    }
    ops
}

pub fn check_program(prog: &Rc<Prog>, len: usize, default_variant: bool, injections: bool, stats: &mut Stats) {
    let setup = Setup { bind_externals: None, allow_fallbacks: true, handler: false, observers: vec![], seed: None };
    let mut flows = vec![
        FlowSpec { name: if default_variant { None } else { Some("fa".into()) }, knot: "ka".into(), sfx: 'a' },
        FlowSpec { name: Some("fb".into()), knot: "kb".into(), sfx: 'b' },
    ];
    // two named flows: the default flow is a bystander that is parked the whole time and is asked
    // for its first line only after everything else (it must still be there, untouched)
    let bystander: Option<Vec<Value>> = if default_variant {
        None
    } else {
        flows.push(FlowSpec { name: None, knot: String::new(), sfx: 'r' });
        run_tagged(prog, &setup, &[(Some(2), Op::Cont)], &flows).map(|(t, _)| t[2].clone())
    };
    let pa = alone_paths(prog, &setup, &flows[0], len, stats);
    let pb = alone_paths(prog, &setup, &flows[1], len, stats);
    stats.add("alone_paths", (pa.len() + pb.len()) as u64);
    // alone transcripts
    let alone = |f: usize, p: &Vec<Op>| -> Option<Vec<Value>> {
        let mut ops: Vec<(Option<usize>, Op)> = vec![];
        if flows[f].name.is_some() {
            ops.push((None, flows[f].switch()));
        }
        ops.push((None, Op::ChoosePath(flows[f].knot.clone(), false)));
        for o in p {
            ops.push((Some(f), o.clone()));
        }
        let (t, fuel) = run_tagged(prog, &setup, &ops, &flows)?;
        if fuel { None } else { Some(t[f].clone()) }
    };
    for a in &pa {
        let Some(ta) = alone(0, a) else { continue };
        for b in &pb {
            let Some(tb) = alone(1, b) else { continue };
            if a.is_empty() || b.is_empty() {
                continue;
            }
            for merge in merges(a.len(), b.len()) {
                let mut variants: Vec<(Inj, usize)> = vec![(Inj::None, 0)];
                if injections {
                    for at in 0..merge.len() {
                        for inj in [Inj::SaveLoad, Inj::RemoveOther, Inj::AwayAndBack] {
                            variants.push((inj, at));
                        }
                        if at + 1 < merge.len() {
                            variants.push((Inj::SaveLoadTwice, at));
                        }
                    }
                }
                for (inj, at) in variants {
                    let mut ops = interleave(&flows, [a, b], &merge, inj, at);
                    if bystander.is_some() {
                        ops.push((None, Op::SwitchDefault));
                        ops.push((Some(2), Op::Cont));
                    }
                    let Some((t, fuel)) = run_tagged(prog, &setup, &ops, &flows) else { continue };
                    if fuel {
                        stats.inc("fuel_exhausted");
                        continue;
                    }
                    stats.inc("traces");
                    stats.add("transitions", ops.len() as u64);
                    stats.see("states", &format!("{:?}", t));
                    stats.see("injection_kinds", &format!("{inj:?}"));
                    let mut expected: Vec<(usize, &Vec<Value>)> = vec![(0usize, &ta), (1usize, &tb)];
                    if let Some(tr) = &bystander {
                        expected.push((2, tr));
                    }
                    for (fi, exp) in expected {
                        let got = &t[fi];
                        // a removed flow's transcript is a prefix
                        let n = got.len().min(exp.len());
                        let full = inj != Inj::RemoveOther || fi == 2;
                        let bad_idx = (0..n).find(|&k| got[k] != exp[k]);
                        let bad = bad_idx.is_some() || (full && got.len() != exp.len()) || got.iter().any(|e| e.get("injected").is_some());
                        if bad {
                            let k = bad_idx.unwrap_or(n);
                            let field = match (got.get(k), exp.get(k)) {
                                (Some(x), Some(y)) => crate::inst::first_diff(x, y).unwrap_or_default(),
                                _ => "length".into(),
                            };
                            let top: String = field.split('.').take(2).collect::<Vec<_>>().join(".");
                            stats.violation(Violation {
                                property: ID.into(),
                                class: format!("{ID}/projection/{:?}/{}/{}", inj, if flows[fi].name.is_none() { "default-flow" } else { "named-flow" }, top),
                                what: format!("flow {} does not get the transcript it produces alone (first difference: {field}; injection {:?}; program {})", flows[fi].sfx, inj, prog.name),
                                artefact: hx::artefact("c10", prog, &setup, json!({
                                    "ops": hist_to_json(&ops.iter().map(|(_, o)| o.clone()).collect::<Vec<_>>()),
                                    "tags": ops.iter().map(|(t, _)| json!(t)).collect::<Vec<_>>(),
                                    "flow": fi, "got": got, "expected_alone": exp, "default_variant": default_variant,
                                })),
                            });
                            break;
                        }
                    }
                }
            }
        }
    }
}

pub fn run(tier: Tier) -> i32 {
    let started = std::time::Instant::now();
    let (len, secs) = match tier {
        Tier::Quick => (3, 50),
        Tier::Thorough => (5, 1800),
    };
    let n = SCRIPTS.len();
    let cases: Vec<(usize, usize, bool)> = (0..n)
        .flat_map(|i| (0..n).flat_map(move |j| [(i, j, false), (i, j, true)]))
        .collect();
    let ctl = RunCtl::new(secs);
    let (mut stats, done) = par_cases(cases.len(), &ctl, |c, st| {
        let (i, j, dv) = cases[c];
        let (name, src) = program(i, j);
        match Prog::from_source(&name, &src) {
            CompileOutcome::Ok(p) => {
                check_program(&p, len, dv, true, st);
                st.inc("programs");
            }
            CompileOutcome::Rejected(e) => {
                st.inc("rejected_by_compiler");
                st.notes.push(format!("{name}: {e}"));
            }
            CompileOutcome::Panicked(e) => st.notes.push(format!("{name}: compiler panic {e}")),
        }
    });
    stats.notes.sort();
    stats.notes.dedup();
    stats.sample(json!({"program": program(0, 1).0, "source": program(0, 1).1}));
    let extra = mc_extras(
        &stats,
        json!({"ops_per_flow": len, "scripts": SCRIPTS.iter().map(|s| s.0).collect::<Vec<_>>(), "program_pairs": n * n, "variants": ["two named flows", "default flow + named flow"], "interleavings": "all merges", "injection_points": "every position x {save+load, save+load twice around one op, remove other flow, away and back}", "cases": cases.len(), "cases_done": done}),
        cases.len(),
        done,
        secs,
    );
    finish(
        ID,
        tier,
        "model_checking",
        &stats,
        extra,
        vec![
            "flow scripts are disjoint by construction (every identifier carries the flow's suffix) and use neither TURNS_SINCE nor RANDOM (turn counter and random state are global by design)".into(),
            "projection oracle: transcript of a flow inside an interleaving == transcript of the same op sequence run alone in a fresh story".into(),
        ],
        started,
    )
}

pub fn replay(art: &Value) -> String {
    let Some(prog) = prog_from_artefact(art) else { return "program no longer compiles".into() };
    let setup = hx::setup_from_json(&art["setup"]);
    let ops = crate::inst::hist_from_json(&art["ops"]);
    match Inst::build(&prog, &setup, &ops) {
        Ok((mut i, rs)) => format!("results {:?}\nfinal {}", rs, i.observe(true)),
        Err(e) => format!("construct failed: {e}"),
    }
}
