//! C11 — variable observers see each committed change once, with the final value.
//! E-hx + polling model: every history over {Cont, Choose, Observe, Unobserve, SetVar, Reset,
//! LoadInto} up to the depth bound; the last op of every history is bracketed with polls of all
//! globals (get_variable) and judged against the model:
//!   * a completed outermost continue notifies each registered (observer, variable) at most once,
//!     exactly once if the polled value differs, and carries the value polled after it returns;
//!   * a host assignment notifies immediately, once per registration, with the assigned value;
//!   * every other call notifies nobody; an unregistered pair is never notified;
//!   * remove_variable_observer of a registered pair succeeds and stops exactly that pair;
//!     registrations survive reset_state and load_state.
use super::{Tier, common::*, finish};
use crate::{
    hx::{self, sigma_play},
    inst::{Inst, Op, Setup, Val, hist_to_json},
    prog::Prog,
    report::{RunCtl, Stats, Violation, par_cases},
};
use serde_json::{Value, json};
use std::rc::Rc;

pub const ID: &str = "C11";

fn sigma(prog: &Prog) -> impl Fn(&Value, &[Op]) -> Vec<Op> + '_ {
    move |o: &Value, h: &[Op]| {
        let mut v = sigma_play(o);
        if o.get("dead").is_some() {
            return v;
        }
        let used = |f: &dyn Fn(&Op) -> bool| h.iter().any(f);
        if let Some(g0) = prog.globals.first() {
            if !used(&|x| matches!(x, Op::Observe(..))) {
                v.push(Op::Observe(2, g0.clone()));
            }
            if !used(&|x| matches!(x, Op::SetVar(_, Val::Int(_)))) {
                v.push(Op::SetVar(g0.clone(), Val::Int(7)));
            }
        }
        // `()` assigned over a list-valued global: the stored value keeps the old list's origins,
        // so it differs from the argument; the observer must be told the stored one
        if !used(&|x| matches!(x, Op::SetVar(_, Val::EmptyList))) {
            for g in &prog.globals {
                if o["globals"][g].as_str().map(|s| s.starts_with("List[")).unwrap_or(false) {
                    if !h.iter().any(|x| matches!(x, Op::Observe(_, v) if v == g)) {
                        if !v.contains(&Op::Observe(2, g.clone())) {
                            v.push(Op::Observe(2, g.clone()));
                        }
                    } else {
                        v.push(Op::SetVar(g.clone(), Val::EmptyList));
                    }
                    break;
                }
            }
        }
        if let Some(g1) = prog.globals.get(1)
            && !used(&|x| matches!(x, Op::Unobserve(_, Some(_))))
        {
            v.push(Op::Unobserve(0, Some(g1.clone())));
        }
        if !used(&|x| matches!(x, Op::Unobserve(_, None))) && !prog.globals.is_empty() {
            v.push(Op::Unobserve(0, None));
        }
        if !used(&|x| matches!(x, Op::Reset)) && !h.is_empty() {
            v.push(Op::Reset);
        }
        if !used(&|x| matches!(x, Op::LoadInto)) && !h.is_empty() {
            v.push(Op::LoadInto);
        }
        v
    }
}

struct Note {
    obs: usize,
    var: String,
    val: String,
}

fn parse_events(ev: &[String]) -> Vec<Note> {
    ev.iter()
        .filter_map(|e| {
            let rest = e.strip_prefix("obs:o")?;
            let (id, rest) = rest.split_once(':')?;
            let (var, rest) = rest.split_once('=')?;
            let (val, _lines) = rest.rsplit_once('@')?;
            Some(Note { obs: id.parse().ok()?, var: var.to_string(), val: val.to_string() })
        })
        .collect()
}

fn check_last_op(prog: &Rc<Prog>, setup: &Setup, hist: &[Op], stats: &mut Stats) {
    let Some((last, pre)) = hist.split_last() else { return };
    let Ok((mut inst, _)) = Inst::build(prog, setup, pre) else { return };
    if inst.fuel_exhausted || inst.dead.is_some() {
        return;
    }
    let before = inst.observe(false);
    if before["errors"].as_array().map(|a| !a.is_empty()).unwrap_or(true) || before["text"].is_object() {
        return; // stopped by an error, or mid-line: not a boundary between outermost continues
    }
    let regs_before = inst.regs();
    let n0 = inst.events_raw().len();
    let r = inst.apply(last);
    if inst.fuel_exhausted {
        stats.inc("fuel_exhausted");
        return;
    }
    let ev: Vec<String> = inst.events_raw()[n0.min(inst.events_raw().len())..].to_vec();
    let after = inst.observe(false);
    let notes = parse_events(&ev);
    stats.inc("ops_judged");
    stats.add("notifications_seen", notes.len() as u64);
    let mut bad: Option<(String, String)> = None;
    let polled = |o: &Value, v: &str| o["globals"][v].as_str().unwrap_or("?").to_string();
    if let Some(p) = r.strip_prefix("panic:") {
        // only observer removal "never panics" is this property's business; a panic while playing
        // is C04's
        if matches!(last, Op::Unobserve(..) | Op::Observe(..)) {
            bad = Some((format!("panic/{}/{p}", last.kind()), format!("{} panicked: {p}", last.kind())));
        } else {
            stats.inc("panics_left_to_C04");
        }
    } else {
        // nobody who is not registered is ever notified
        for n in &notes {
            if !regs_before.iter().any(|(o, v)| *o == n.obs && *v == n.var) {
                bad = Some((format!("unregistered-notified/{}", last.kind()), format!("observer o{} was notified of {} without being registered for it", n.obs, n.var)));
            }
        }
        match last {
            Op::Cont if r.starts_with("ok") => {
                for (o, v) in &regs_before {
                    let mine: Vec<&Note> = notes.iter().filter(|n| n.obs == *o && n.var == *v).collect();
                    // the same observer object may be registered twice for a variable
                    let mult = regs_before.iter().filter(|(a, b)| a == o && b == v).count();
                    let (pb, pa) = (polled(&before, v), polled(&after, v));
                    if mine.len() > mult {
                        bad = Some(("continue/notified-twice".into(), format!("o{o} got {} notifications for {v} in one continue", mine.len())));
                    } else if pb != pa && mine.len() != mult {
                        bad = Some(("continue/change-not-notified".into(), format!("{v} changed from {pb} to {pa} during the continue but o{o} got {} notification(s)", mine.len())));
                    } else if let Some(n) = mine.iter().find(|n| n.val != pa) {
                        bad = Some(("continue/stale-or-uncommitted-value".into(), format!("o{o} was told {v}={} but the variable is {pa} when the continue returns", n.val)));
                    }
                    if bad.is_some() {
                        break;
                    }
                }
            }
            _ => {} // (a continue that ended in an error: no requirement)
        }
        // the same outermost continue, time-sliced: some slices of k steps (virtual clock), then
        // run to the end. It is ONE continue: every change made in any slice is notified once,
        // with the value the variable has when the continue completes.
        if matches!(last, Op::Cont) && r.starts_with("ok") && bad.is_none() {
            'budgets: for k in [1u64, 2, 3, 5, 8] {
                let Ok((mut i2, _)) = Inst::build(prog, setup, pre) else { break };
                let m0 = i2.events_raw().len();
                let mut pending = false;
                for _ in 0..3 {
                    let r1 = i2.apply(&Op::ContAsync(k));
                    pending = r1 == "ok:pending";
                    if !pending {
                        break;
                    }
                }
                if pending {
                    let r2 = i2.apply(&Op::ContAsyncFinish);
                    if !r2.starts_with("ok") {
                        continue;
                    }
                }
                if i2.fuel_exhausted || i2.dead.is_some() {
                    continue;
                }
                stats.inc("sliced_continues_judged");
                let ev2: Vec<String> = i2.events_raw()[m0.min(i2.events_raw().len())..].to_vec();
                let notes2 = parse_events(&ev2);
                let after2 = i2.observe(false);
                for (o, v) in &regs_before {
                    let mine: Vec<&Note> = notes2.iter().filter(|n| n.obs == *o && n.var == *v).collect();
                    let mult = regs_before.iter().filter(|(a, b)| a == o && b == v).count();
                    let (pb, pa) = (polled(&before, v), polled(&after2, v));
                    if mine.len() > mult {
                        bad = Some(("continue-sliced/notified-twice".into(), format!("o{o} got {} notifications for {v} in one continue run in slices of {k} step(s)", mine.len())));
                    } else if pb != pa && mine.len() != mult {
                        bad = Some(("continue-sliced/change-not-notified".into(), format!("{v} changed from {pb} to {pa} during a continue run in slices of {k} step(s) but o{o} got {} notification(s)", mine.len())));
                    } else if let Some(n) = mine.iter().find(|n| n.val != pa) {
                        bad = Some(("continue-sliced/stale-or-uncommitted-value".into(), format!("o{o} was told {v}={} but the variable is {pa} when the sliced continue completes", n.val)));
                    }
                    if bad.is_some() {
                        break 'budgets;
                    }
                }
            }
        }
        match last {
            Op::Cont => {}
            Op::SetVar(var, _) if r == "ok" => {
                for (o, v) in &regs_before {
                    let mine: Vec<&Note> = notes.iter().filter(|n| n.obs == *o && n.var == *v).collect();
                    let mult = regs_before.iter().filter(|(a, b)| a == o && b == v).count();
                    let (pb, pa) = (polled(&before, v), polled(&after, v));
                    if v != var {
                        if !mine.is_empty() {
                            bad = Some(("setvar/other-variable-notified".into(), format!("set_variable({var}) notified o{o} about {v}")));
                        }
                    } else if mine.len() > mult || (pb != pa && mine.len() != mult) {
                        bad = Some(("setvar/not-once".into(), format!("set_variable({var}) ({pb} -> {pa}) produced {} notification(s) for o{o}", mine.len())));
                    } else if let Some(n) = mine.iter().find(|n| n.val != pa) {
                        bad = Some(("setvar/wrong-value".into(), format!("o{o} was told {v}={} but it is {pa}", n.val)));
                    }
                    if bad.is_some() {
                        break;
                    }
                }
            }
            Op::Unobserve(o, v) => {
                let registered = regs_before.iter().any(|(a, b)| a == o && v.as_ref().map(|v| v == b).unwrap_or(true));
                if registered && r != "ok" {
                    bad = Some(("unobserve/refused".into(), format!("removing a registered observer returned {r}")));
                } else if !notes.is_empty() {
                    bad = Some(("unobserve/notified".into(), "remove_variable_observer produced notifications".into()));
                }
            }
            _ => {
                if !notes.is_empty() {
                    bad = Some((format!("spurious/{}", last.kind()), format!("{} produced {} notification(s)", last.kind(), notes.len())));
                }
            }
        }
    }
    // registrations survive reset and load: checked by the continues that follow them (the model
    // keeps the registration, so a missing notification is reported as change-not-notified)
    if let Some((cls, what)) = bad {
        let feats: Vec<&str> = pre
            .iter()
            .filter_map(|o| match o {
                Op::Reset => Some("reset"),
                Op::LoadInto => Some("load"),
                Op::Unobserve(..) => Some("unobserve"),
                Op::Observe(..) => Some("observe"),
                _ => None,
            })
            .collect();
        let mut f = feats.clone();
        f.dedup();
        stats.violation(Violation {
            property: ID.into(),
            class: format!("{ID}/{cls}{}", if f.is_empty() { String::new() } else { format!("/after-{}", f.join("+")) }),
            what: format!("{what} (program {})", prog.name),
            artefact: hx::artefact("c11", prog, setup, json!({"history": hist_to_json(hist), "result": r, "events": ev, "polled_before": before["globals"], "polled_after": after["globals"], "registrations": regs_before})),
        });
    }
}

pub fn run(tier: Tier) -> i32 {
    let started = std::time::Instant::now();
    let (h, k, a, secs) = match tier {
        Tier::Quick => (4, 2, 9, 45),
        Tier::Thorough => (5, 2, 16, 2400),
    };
    let set = program_set(k, a, 0);
    let ctl = RunCtl::new(secs);
    let (stats, done) = par_cases(set.len(), &ctl, |i, st| {
        let Some(p) = set[i].load() else {
            st.inc("rejected_by_compiler");
            return;
        };
        if p.globals.is_empty() {
            st.inc("programs_without_globals");
            return;
        }
        let setup = super::c09::setup_for(&p);
        let sg = sigma(&p);
        let hs = hx::histories(&p, &setup, h, &sg, st);
        for (hist, _o) in &hs {
            check_last_op(&p, &setup, hist, st);
        }
        if st.samples.len() < 2 && let Some((hh, _)) = hs.last() {
            st.sample(json!({"program": p.name, "history": hist_to_json(hh)}));
        }
        st.inc("programs");
    });
    let extra = mc_extras(
        &stats,
        json!({"history_depth": h, "segment_family": [k, a], "programs": set.len(), "programs_done": done, "alphabet": ["Cont", "Choose(i)", "Observe(o2,g0)", "Unobserve(o0,Some(g1))", "Unobserve(o0,None)", "SetVar(g0,7)", "Observe(o2,gl) then SetVar(gl,()) for the first list-valued global gl", "Reset", "LoadInto"]}),
        set.len(),
        done,
        secs,
    );
    finish(
        ID,
        tier,
        "model_checking",
        &stats,
        extra,
        vec![
            "reference model = polling get_variable before and after every host call + the host's own list of registrations".into(),
            "a variable whose polled value is unchanged may be notified 0 or 1 times (change-and-change-back is allowed to notify)".into(),
        ],
        started,
    )
}

pub fn replay(art: &Value) -> String {
    let Some(prog) = prog_from_artefact(art) else { return "program no longer compiles".into() };
    let setup = hx::setup_from_json(&art["setup"]);
    let hist = crate::inst::hist_from_json(&art["history"]);
    match Inst::build(&prog, &setup, &hist) {
        Ok((mut i, rs)) => format!("results {:?}\nevents {:?}\nfinal globals {}", rs, i.events_raw(), i.observe(false)["globals"]),
        Err(e) => format!("construct failed: {e}"),
    }
}
