//! C12 — external functions are called as bound: right arguments, order and timing.
//! E-enum + refint: every program of the external-call family (k slots over one item per syntactic
//! position of a call, plus context items) x every binding configuration x every choice path up to
//! the depth bound is played on the real `Story` with logging host functions, and compared with
//! the reference interpreter's output and call log (RULES.md X1-X5):
//!   safe      output equal; the engine's call log is the reference log with speculative repeats
//!   unsafe    output equal; call log identical; every call happens when exactly the lines before
//!             it have been delivered; a call from a string / choice text is refused with an error
//!   fallback  output equal to running the Ink function of the same name; no host call
//!   unbound / fallback missing: the first continue fails with an error, no panic
use super::{Tier, finish};
use crate::{
    ink::{
        ast::Program,
        inkgen,
        refint::{self, ExtMode, State, Vm},
    },
    inst::{Inst, Op, Setup},
    prog::{CompileOutcome, Prog},
    report::{RunCtl, Violation, par_cases},
};
use serde_json::{Value, json};
use std::rc::Rc;

pub const ID: &str = "C12";

#[derive(Clone, Copy, Debug, PartialEq)]
pub struct Config {
    pub name: &'static str,
    pub bind: Option<bool>,
    pub allow_fallbacks: bool,
    pub fallback_fns: bool,
}

pub const CONFIGS: &[Config] = &[
    Config { name: "safe", bind: Some(true), allow_fallbacks: false, fallback_fns: false },
    Config { name: "safe+fns", bind: Some(true), allow_fallbacks: true, fallback_fns: true },
    Config { name: "unsafe", bind: Some(false), allow_fallbacks: false, fallback_fns: false },
    Config { name: "fallback", bind: None, allow_fallbacks: true, fallback_fns: true },
    Config { name: "fallback-missing", bind: None, allow_fallbacks: true, fallback_fns: false },
    Config { name: "unbound", bind: None, allow_fallbacks: false, fallback_fns: true },
];

#[derive(Debug, Clone, Default)]
struct EngTurn {
    lines: Vec<(String, Vec<String>)>,
    choices: Vec<String>,
    ended: bool,
    problem: Option<String>,
}

#[derive(Debug, Clone)]
struct EngRun {
    turns: Vec<EngTurn>,
    /// (name(args), lines delivered to the host before the call)
    calls: Vec<(String, usize)>,
}

fn engine_run(prog: &Rc<Prog>, cfg: &Config, path: &[usize]) -> Option<EngRun> {
    let setup = Setup { bind_externals: cfg.bind, allow_fallbacks: cfg.allow_fallbacks, handler: false, observers: vec![], seed: None };
    let mut inst = Inst::new(prog, &setup).ok()?;
    let mut turns = vec![];
    // nonempty[n] = lines with text or tags among the first n continues
    let mut nonempty = vec![0usize];
    let mut step = 0;
    loop {
        let mut turn = EngTurn::default();
        loop {
            let story = inst.story.as_mut()?;
            if !story.can_continue() {
                break;
            }
            let r = inst.apply(&Op::Cont);
            if inst.fuel_exhausted {
                return None;
            }
            if let Some(d) = &inst.dead {
                turn.problem = Some(format!("panic: {d}"));
                break;
            }
            if !r.starts_with("ok:") {
                turn.problem = Some(format!("continue -> {r}"));
                break;
            }
            let story = inst.story.as_mut()?;
            let text = story.get_current_text().unwrap_or_default();
            let tags = story.get_current_tags().unwrap_or_default();
            let real = !(text.trim().is_empty() && tags.is_empty());
            nonempty.push(nonempty.last().unwrap() + real as usize);
            if real {
                turn.lines.push((text, tags));
            }
            if story.has_error() {
                turn.problem = Some(format!("story errors: {:?}", story.get_current_errors()));
                break;
            }
        }
        let stop = turn.problem.is_some();
        if let Some(story) = inst.story.as_mut() {
            turn.choices = story.get_current_choices().iter().map(|c| c.text.clone()).collect();
            turn.ended = !story.can_continue() && turn.choices.is_empty();
        }
        turns.push(turn);
        if stop || step >= path.len() {
            break;
        }
        let r = inst.apply(&Op::Choose(path[step]));
        step += 1;
        if r != "ok" {
            turns.push(EngTurn { problem: Some(format!("choose -> {r}")), ..Default::default() });
            break;
        }
    }
    let mut calls = vec![];
    for e in inst.events_raw() {
        if let Some(rest) = e.strip_prefix("ext:") {
            let (call, n) = rest.rsplit_once('@')?;
            let n: usize = n.parse().ok()?;
            calls.push((call.to_string(), nonempty.get(n).copied().unwrap_or(usize::MAX)));
        }
    }
    Some(EngRun { turns, calls })
}

/// is `eng` the reference log with some stretches run speculatively and then run again?
fn stutter_match(eng: &[String], reference: &[String]) -> bool {
    // NFA over positions in `reference`: advance on a match, or jump back to any earlier equal call
    let mut pos: Vec<bool> = vec![false; reference.len() + 1];
    pos[0] = true;
    for e in eng {
        let mut next = vec![false; reference.len() + 1];
        let max = pos.iter().rposition(|b| *b).unwrap_or(0);
        for j in 0..reference.len() {
            if &reference[j] == e && (pos[j] || j < max) {
                next[j + 1] = true;
            }
        }
        if !next.iter().any(|b| *b) {
            return false;
        }
        pos = next;
    }
    pos[reference.len()]
}

pub struct Judged {
    pub transitions: u64,
    pub state_hashes: Vec<u64>,
    pub paths: u64,
    pub calls: u64,
    pub speculative: u64,
    pub refused: u64,
    pub no_verdict: Option<String>,
    pub violation: Option<(String, String, Vec<usize>)>,
}

fn ref_mode(cfg: &Config) -> ExtMode {
    match cfg.bind {
        Some(true) => ExtMode::Safe,
        Some(false) => ExtMode::Unsafe,
        None => ExtMode::Fallback,
    }
}

/// configurations whose first continue must fail
fn judge_must_fail(prog: &Rc<Prog>, cfg: &Config) -> Option<(String, String)> {
    let run = engine_run(prog, cfg, &[])?;
    let t = run.turns.first()?;
    match &t.problem {
        Some(p) if p.starts_with("panic") => Some(("panic".into(), format!("with externals {} the first continue panics: {p}", cfg.name))),
        Some(_) if t.lines.is_empty() => None,
        Some(p) => Some(("late-error".into(), format!("with externals {} the story delivers {:?} before failing with {p}", cfg.name, t.lines))),
        None => Some(("no-error".into(), format!("with externals {} the first continue succeeds: {:?}", cfg.name, t.lines))),
    }
}

pub fn judge_program(name: &str, ast: &Program, cfg: &Config, depth: usize) -> Judged {
    let mut j = Judged { transitions: 0, state_hashes: vec![], paths: 0, calls: 0, speculative: 0, refused: 0, no_verdict: None, violation: None };
    let src = ast.render();
    let prog = match Prog::from_source(name, &src) {
        CompileOutcome::Ok(p) => p,
        CompileOutcome::Rejected(e) => {
            j.no_verdict = Some(format!("rejected by the compiler: {e}"));
            return j;
        }
        CompileOutcome::Panicked(e) => {
            j.no_verdict = Some(format!("compiler panic: {e}"));
            return j;
        }
    };
    if cfg.bind.is_none() && !(cfg.allow_fallbacks && cfg.fallback_fns) {
        j.paths = 1;
        if let Some((aspect, what)) = judge_must_fail(&prog, cfg) {
            j.violation = Some((aspect, what, vec![]));
        }
        return j;
    }
    let c = refint::compile(ast);
    let mut vm = Vm::new(&c, vec![], vec![]);
    vm.ext_mode = ref_mode(cfg);
    // DFS over choice paths; the reference carries (state, turns so far) per node
    struct Node {
        path: Vec<usize>,
        state: State,
        turns: Vec<refint::TurnOut>,
    }
    let mut stack = vec![Node { path: vec![], state: vm.initial(), turns: vec![] }];
    while let Some(mut node) = stack.pop() {
        let r = vm.run_turn(&mut node.state);
        let refused = matches!(&r.error, Some(e) if e.starts_with("unsafe-in-string"));
        if r.error.is_some() && !refused {
            j.no_verdict = Some(format!("outside the supported core (reference: {})", r.error.clone().unwrap()));
            return j;
        }
        node.turns.push(r.clone());
        let Some(eng) = engine_run(&prog, cfg, &node.path) else {
            j.no_verdict = Some("engine fuel exhausted".into());
            return j;
        };
        j.paths += 1;
        j.transitions += (node.path.len() + eng.turns.iter().map(|t| t.lines.len()).sum::<usize>()) as u64;
        j.state_hashes.push(crate::report::hash_str(&format!("{}|{}|{:?}|{:?}|{:?}", name, cfg.name, r.lines.iter().map(|l| &l.text).collect::<Vec<_>>(), r.choices, r.ext_calls)));
        if let Some((aspect, what)) = compare(&eng, &node.turns, cfg, refused, &mut j) {
            j.violation = Some((aspect, what, node.path));
            return j;
        }
        if refused {
            j.refused += 1;
            continue;
        }
        if node.path.len() < depth {
            for i in (0..r.choices.len()).rev() {
                let mut s2 = node.state.clone();
                if vm.choose(&mut s2, i) {
                    let mut p2 = node.path.clone();
                    p2.push(i);
                    stack.push(Node { path: p2, state: s2, turns: node.turns.clone() });
                }
            }
        }
    }
    j
}

fn compare(eng: &EngRun, turns: &[refint::TurnOut], cfg: &Config, refused: bool, j: &mut Judged) -> Option<(String, String)> {
    let last = turns.len() - 1;
    // reference call log with absolute line counts
    let mut ref_calls: Vec<(String, usize)> = vec![];
    let mut lines_before_turn = 0;
    for t in turns {
        for c in &t.ext_calls {
            ref_calls.push((format!("{}({})", c.name, c.args.join(",")), lines_before_turn + c.lines_before));
        }
        lines_before_turn += t.lines.iter().filter(|l| !(l.text.trim().is_empty() && l.tags.is_empty())).count();
    }
    for (ti, rt) in turns.iter().enumerate() {
        let Some(et) = eng.turns.get(ti) else {
            return Some(("turns".into(), format!("the engine stopped after {} turn(s); the reference plays {}", eng.turns.len(), turns.len())));
        };
        let is_refusal = refused && ti == last;
        if is_refusal {
            // X4: the call must be refused with an error, not executed, not a panic
            return match &et.problem {
                Some(p) if p.starts_with("panic") => Some(("unsafe-in-string/panic".into(), format!("a not-look-ahead-safe call from string / choice text panics: {p}"))),
                Some(_) => {
                    let e: Vec<&String> = eng.calls.iter().map(|c| &c.0).collect();
                    let r: Vec<&String> = ref_calls.iter().map(|c| &c.0).collect();
                    if e != r {
                        Some(("unsafe-in-string/called".into(), format!("the refused call ran anyway: engine calls {e:?}, allowed {r:?}")))
                    } else {
                        None
                    }
                }
                None => Some(("unsafe-in-string/no-error".into(), format!("a not-look-ahead-safe call from string / choice text is not refused: the turn delivers {:?} and offers {:?}; calls {:?}", et.lines, et.choices, eng.calls))),
            };
        }
        if let Some(p) = &et.problem {
            let aspect = if p.starts_with("panic") { "panic" } else { "engine-error" };
            return Some((aspect.into(), format!("turn {ti}: the engine reports {p}; the reference plays on with {:?}", rt.lines.iter().map(|l| &l.text).collect::<Vec<_>>())));
        }
        let rl: Vec<(String, Vec<String>)> = rt.lines.iter().filter(|l| !(l.text.trim().is_empty() && l.tags.is_empty())).map(|l| (l.text.clone(), l.tags.clone())).collect();
        let norm = |t: &str| t.trim_end_matches('\n').to_string();
        let el: Vec<(String, Vec<String>)> = et.lines.iter().map(|(t, g)| (norm(t), g.clone())).collect();
        let rl: Vec<(String, Vec<String>)> = rl.iter().map(|(t, g)| (norm(t), g.clone())).collect();
        if el != rl {
            return Some(("output".into(), format!("turn {ti}: engine lines {el:?}; as if every call ran once: {rl:?}")));
        }
        if et.choices != rt.choices {
            return Some(("choices".into(), format!("turn {ti}: engine offers {:?}; as if every call ran once: {:?}", et.choices, rt.choices)));
        }
        if et.ended != rt.ended {
            return Some(("end-status".into(), format!("turn {ti}: engine ended={}, reference ended={}", et.ended, rt.ended)));
        }
    }
    let e: Vec<String> = eng.calls.iter().map(|c| c.0.clone()).collect();
    let r: Vec<String> = ref_calls.iter().map(|c| c.0.clone()).collect();
    j.calls += r.len() as u64;
    match cfg.bind {
        Some(true) => {
            if !stutter_match(&e, &r) {
                return Some(("calls/safe".into(), format!("engine call log {e:?} is not the story's calls {r:?} with speculative repeats")));
            }
            j.speculative += e.len().saturating_sub(r.len()) as u64;
        }
        Some(false) => {
            if e != r {
                return Some(("calls/unsafe-count".into(), format!("not-look-ahead-safe functions ran {e:?}; the story executes {r:?}")));
            }
            for (k, (ec, rc)) in eng.calls.iter().zip(ref_calls.iter()).enumerate() {
                if ec.1 != rc.1 {
                    let aspect = if ec.1 < rc.1 { "calls/unsafe-early" } else { "calls/unsafe-late" };
                    return Some((aspect.into(), format!("call {k} {} ran when {} line(s) had been delivered; {} line(s) precede it in the story", ec.0, ec.1, rc.1)));
                }
            }
        }
        None => {
            if !e.is_empty() {
                return Some(("calls/unbound".into(), format!("nothing is bound, yet host functions ran: {e:?}")));
            }
        }
    }
    None
}

pub fn run(tier: Tier) -> i32 {
    let started = std::time::Instant::now();
    let a = inkgen::EXT_ITEMS.len();
    let (ks, depth, secs): (Vec<usize>, usize, u64) = match tier {
        Tier::Quick => (vec![1, 2], 4, 50),
        Tier::Thorough => (vec![1, 2, 3], 5, 2400),
    };
    // work items: (k, index, config)
    let mut items: Vec<(usize, usize, usize)> = vec![];
    for &k in &ks {
        for i in 0..a.pow(k as u32) {
            for c in 0..CONFIGS.len() {
                items.push((k, i, c));
            }
        }
    }
    let ctl = RunCtl::new(secs);
    let (mut stats, done) = par_cases(items.len(), &ctl, |n, st| {
        let (k, i, c) = items[n];
        let cfg = &CONFIGS[c];
        let (name, ast, glue) = inkgen::ext_nth(k, i, cfg.fallback_fns);
        st.inc("programs");
        st.inc(&format!("programs::{}", cfg.name));
        if glue && cfg.bind == Some(false) {
            // glue across a line end and "not before the preceding line is delivered" contradict
            // each other; the property's timing clause is checked on programs without glue
            st.inc("skipped::glue-with-unsafe");
            return;
        }
        let j = judge_program(&name, &ast, cfg, depth);
        st.add("paths", j.paths);
        st.add("transitions", j.transitions);
        for h in &j.state_hashes {
            st.see("states", &h.to_string());
        }
        st.add("calls_compared", j.calls);
        st.add("speculative_calls_seen", j.speculative);
        st.add("refusals_checked", j.refused);
        if let Some(nv) = &j.no_verdict {
            st.inc("no_verdict");
            st.inc(&format!("no_verdict::{}", nv.split(':').next().unwrap_or("")));
            if st.notes.len() < 5 {
                st.notes.push(format!("{name} [{}]: {nv}", cfg.name));
            }
            return;
        }
        st.see("programs_judged", &format!("{name}|{}", cfg.name));
        if let Some((aspect, what, path)) = j.violation {
            // class: configuration, aspect and the set of slot items (not their order)
            let mut its: Vec<&str> = (0..k).map(|s| inkgen::EXT_ITEMS[(i / a.pow(s as u32)) % a]).collect();
            its.sort();
            its.dedup();
            st.violation(Violation {
                property: ID.into(),
                class: format!("{ID}/{}/{aspect}/{}", cfg.name, its.join("+")),
                what: format!("{what} [program {name}, externals {}, choice path {path:?}]", cfg.name),
                artefact: json!({"check": "c12", "k": k, "index": i, "config": c, "program": name, "source": ast.render(), "path": path}),
            });
        }
    });
    stats.notes.sort();
    stats.notes.dedup();
    let (n0, a0, _) = inkgen::ext_nth(2, 7 + a * 4, false);
    stats.sample(json!({"program": n0, "source": a0.render()}));
    let exhaustive = done == items.len();
    let extra = vec![
        ("evaluations", json!(stats.get("paths"))),
        ("distinct_nontrivial", json!(stats.n_distinct("programs_judged"))),
        ("rule", json!("evaluation = one (program, binding configuration, choice path) played on the engine with logging host functions and compared with the reference output and call log; non-trivial = compiled and inside the supported core")),
        ("states", json!(stats.n_distinct("states").max(1))),
        ("transitions", json!(stats.get("transitions").max(1))),
        ("traces_validated_against_impl", json!(stats.get("paths"))),
        ("exhaustive", json!(exhaustive)),
        ("bounds", json!({"slots": ks, "alphabet": inkgen::EXT_ITEMS, "configurations": CONFIGS.iter().map(|c| c.name).collect::<Vec<_>>(), "choice_depth": depth, "work_items": items.len(), "done": done})),
        ("caps_hit", json!(if exhaustive { vec![] } else { vec![format!("wall cap {secs}s: {done}/{} items", items.len())] })),
    ];
    finish(
        ID,
        tier,
        "model_checking",
        &stats,
        extra,
        vec![
            "the reference (harness/src/ink/refint.rs, RULES.md X1-X5) runs every call exactly once where it stands; host functions are pure functions of their arguments, so speculative runs of look-ahead-safe functions are visible only in the call log".into(),
            "lines delivered = continues that returned text or tags; the host plays one line per continue".into(),
            "programs with glue are not played with not-look-ahead-safe bindings (counted as skipped)".into(),
        ],
        started,
    )
}

pub fn replay(art: &Value) -> String {
    let (k, i, c) = (art["k"].as_u64().unwrap_or(1) as usize, art["index"].as_u64().unwrap_or(0) as usize, art["config"].as_u64().unwrap_or(0) as usize);
    let cfg = &CONFIGS[c.min(CONFIGS.len() - 1)];
    let (name, ast, _) = inkgen::ext_nth(k, i, cfg.fallback_fns);
    let j = judge_program(&name, &ast, cfg, 4);
    match (j.violation, j.no_verdict) {
        (Some((aspect, what, path)), _) => format!("{name} [{}]: {aspect}: {what} at {path:?}", cfg.name),
        (None, Some(nv)) => format!("{name}: no verdict: {nv}"),
        (None, None) => format!("{name} [{}]: agrees with the reference on {} paths", cfg.name, j.paths),
    }
}
