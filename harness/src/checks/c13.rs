//! C13 — every runtime error and warning is delivered exactly once.
//! E-hx + raise model. Programs raise warnings and errors at chosen points (first line,
//! mid-story, in choice bodies, twice in one continue, across glue, constructor warning through
//! inkVersion 20); every raise has a unique name and sits on a line next to a unique marker word,
//! so the set of raises executed on a path is read off the delivered text (the marker and the raise
//! are committed or discarded together). All play paths x {handler, no handler} x {play on, reset
//! and replay, redirect with choose_path_string} are explored.
use super::{Tier, common::*, finish};
use crate::{
    hx::{self, sigma_play},
    inst::{Inst, Op, Setup, hist_to_json},
    prog::{CompileOutcome, Prog},
    report::{RunCtl, Stats, Violation, par_cases},
};
use serde_json::{Value, json};
use std::rc::Rc;

pub const ID: &str = "C13";

/// Ink sources. `ghostN` are declared so that the compiler accepts the program; their
/// declarations are then deleted from the compiled story ("global decl"), so that reading them
/// raises the runtime warning "Variable not found: 'ghostN'". `Wn:` is the marker of ghostN.
/// `bad1`/`bad2` are integer variables used as divert targets (runtime error naming the
/// variable); `En:` is the marker printed on the line before the failing divert.
const SOURCES: &[(&str, &str)] = &[
    ("straight", "VAR ghost1 = 0\nVAR ghost2 = 0\nLine one.\nW1:{ghost1} mid.\nLine three.\nW2:{ghost2 > 0: x|y} cond.\nLine five.\n-> END\n"),
    ("first-line", "VAR ghost1 = 0\nW1:{ghost1} first.\nSecond.\nThird.\n-> END\n"),
    ("twice-one-continue", "VAR ghost1 = 0\nVAR ghost2 = 0\nVAR ghost3 = 0\nVAR ghost4 = 0\nIntro.\nW1:{ghost1} and W2:{ghost2} together.\nW3:{ghost3} <>\n glued W4:{ghost4}.\nOutro.\n-> END\n"),
    ("choices", "VAR ghost1 = 0\nVAR ghost2 = 0\nVAR ghost3 = 0\nVAR bad1 = 0\nStart.\n* alpha\n    W1:{ghost1} in alpha.\n    More alpha.\n* beta\n    W2:{ghost2} in beta.\n    E1: next fails.\n    -> bad1\n* gamma [W3:{ghost3}]\n    Gamma body.\n- Gathered.\n-> END\n"),
    ("warn-then-error", "VAR ghost1 = 0\nVAR bad1 = 0\nOne.\nW1:{ghost1} E1: same continue.\n-> bad1\n"),
    // (the main flow ends in an implicit `done`, so running out of content needs a knot)
    ("run-out", "VAR ghost1 = 0\nOne.\n-> k\n=== k ===\nW1:{ghost1} two.\nE9: last line, then the content runs out.\n"),
    ("in-function", "VAR ghost1 = 0\nVAR ghost2 = 0\nStart {f()} done.\nNext.\n~ g()\nEnd.\n-> END\n=== function f() ===\nW1:{ghost1}\n~ return 3\n=== function g() ===\nW2:{ghost2} from g.\nSecond of g.\n"),
    // warning and error pending at the end of the same continue: the error is raised before the
    // line end, so it is not rewound with a look-ahead
    ("warn-and-error-one-line", "VAR ghost1 = 0\nVAR bad1 = 0\nOne.\nW1:{ghost1} E1: same line -> bad1\n"),
    ("error-first-continue", "VAR bad1 = 0\nE1: first line -> bad1\n"),
    ("run-out-first", "VAR ghost1 = 0\n-> k\n=== k ===\nW1:{ghost1} E9: only line, then the content runs out.\n"),
    ("tunnel-error", "VAR ghost1 = 0\nVAR bad1 = 0\nBefore.\n-> t ->\nAfter tunnel.\n-> END\n=== t ===\nW1:{ghost1} in tunnel.\nE1: tunnel fails.\n-> bad1\n"),
];

fn strip_ghost_decls(json_text: &str) -> String {
    let mut s = json_text.to_string();
    for n in 1..=9 {
        s = s.replace(&format!("0,{{\"VAR=\":\"ghost{n}\"}},"), "");
    }
    s
}

/// raise items of the generated family: slot `n` (1-based) owns ghost variable n and marker Wn
const RAISE_ITEMS: &[&str] = &["plain", "warn", "warn-cond", "warn-glue", "warn-fn", "warn-choice", "warn-choice-text"];
const TERMINATORS: &[&str] = &["end", "bad-divert", "run-out", "bad-divert-inline"];

fn raise_item(a: usize, n: usize) -> (String, String) {
    match RAISE_ITEMS[a] {
        "plain" => (format!("Plain {n}.\n"), String::new()),
        "warn" => (format!("W{n}:{{ghost{n}}} warn.\n"), String::new()),
        "warn-cond" => (format!("W{n}:{{ghost{n} > 0: x|y}} cond.\n"), String::new()),
        "warn-glue" => (format!("W{n}:{{ghost{n}}} <>\n glued {n}.\n"), String::new()),
        "warn-fn" => (format!("Fn {{fw{n}()}} done.\n"), format!("=== function fw{n}() ===\nW{n}:{{ghost{n}}}\n~ return 3\n")),
        "warn-choice" => (format!("* a{n}\n    W{n}:{{ghost{n}}} in a.\n* b{n}\n    Plain b{n}.\n- Gathered {n}.\n"), String::new()),
        _ => (format!("* c{n} [W{n}:{{ghost{n}}}]\n    Body c{n}.\n- After c{n}.\n"), String::new()),
    }
}

/// generated family: k raise slots x a terminator (normal end, error by a bad divert variable, error
/// by running out of content)
pub fn family_count(k: usize) -> usize {
    RAISE_ITEMS.len().pow(k as u32) * TERMINATORS.len()
}

pub fn family_nth(k: usize, mut i: usize) -> (String, String) {
    let term = i % TERMINATORS.len();
    i /= TERMINATORS.len();
    let mut name = format!("gen-{}", TERMINATORS[term]);
    let mut body = String::from("Start.\n");
    let mut tail = String::new();
    for slot in 0..k {
        let a = i % RAISE_ITEMS.len();
        i /= RAISE_ITEMS.len();
        let (b, t) = raise_item(a, slot + 1);
        name.push('-');
        name.push_str(RAISE_ITEMS[a]);
        body.push_str(&b);
        tail.push_str(&t);
    }
    let ending = match TERMINATORS[term] {
        "end" => "Last.\n-> END\n".to_string(),
        "bad-divert" => "E1: next fails.\n-> bad1\n".to_string(),
        "bad-divert-inline" => "W4:{ghost4} E1: fails before the line ends -> bad1\n".to_string(),
        _ => "-> k\n=== k ===\nE9: last line, then the content runs out.\n".to_string(),
    };
    (name, format!("VAR ghost1 = 0\nVAR ghost2 = 0\nVAR ghost3 = 0\nVAR ghost4 = 0\nVAR bad1 = 0\n{body}{ending}{tail}"))
}

pub fn programs() -> Vec<Rc<Prog>> {
    programs_for(2)
}

pub fn programs_for(max_slots: usize) -> Vec<Rc<Prog>> {
    let mut v = hand_written();
    for k in 1..=max_slots {
        for i in 0..family_count(k) {
            let (name, src) = family_nth(k, i);
            if let CompileOutcome::Ok(p) = Prog::from_source(&name, &src) {
                let mut q = Prog::from_json(&name, &strip_ghost_decls(&p.json));
                q.functions = p.functions.clone();
                q.plain_knots = p.plain_knots.clone();
                q.source = None;
                v.push(Rc::new(q));
            }
        }
    }
    v
}

fn hand_written() -> Vec<Rc<Prog>> {
    let mut v = vec![];
    for (name, src) in SOURCES {
        if let CompileOutcome::Ok(p) = Prog::from_source(name, src) {
            for version in [21, 20] {
                let mut j = strip_ghost_decls(&p.json);
                if version != 21 {
                    if !["straight", "choices", "error-first-continue", "run-out-first", "warn-and-error-one-line"].contains(name) {
                        continue;
                    }
                    j = j.replace("\"inkVersion\":21", "\"inkVersion\":20");
                }
                let mut q = Prog::from_json(&format!("{name}-v{version}"), &j);
                q.functions = p.functions.clone();
                q.plain_knots = p.plain_knots.clone();
                // keep the (edited) json as the program; source only documents where it came from
                q.source = None;
                v.push(Rc::new(q));
            }
        }
    }
    v
}

fn markers(text: &str, prefix: char) -> Vec<usize> {
    // occurrences of "W<digit>:" / "E<digit>:"
    let b: Vec<char> = text.chars().collect();
    let mut out = vec![];
    for i in 0..b.len().saturating_sub(2) {
        if b[i] == prefix && b[i + 1].is_ascii_digit() && b[i + 2] == ':' && (i == 0 || !b[i - 1].is_alphanumeric()) {
            out.push(b[i + 1].to_digit(10).unwrap() as usize);
        }
    }
    out
}

struct Epoch {
    /// markers seen in delivered text / choice text
    w: Vec<usize>,
    e: Vec<usize>,
}

/// `slice`: Some(k) = every continue is made of a time-limited slice of k steps followed by an
/// unlimited one (the messages of a line must arrive once however the host slices it)
fn judge_path(prog: &Rc<Prog>, setup: &Setup, hist: &[Op], slice: Option<u64>, stats: &mut Stats) {
    let Ok(mut inst) = Inst::new(prog, setup) else { return };
    let version_warning = prog.json.contains("\"inkVersion\":20");
    let mut epoch = Epoch { w: vec![], e: vec![] };
    let mut first_cont_of_epoch = true;
    let mut stopped_by_error = false;
    let mut bad: Option<(String, String)> = None;
    let mut log_start = 0usize; // handler log index where the current epoch starts
    let mut seen_choice_text: Vec<String> = vec![];
    for (i, op) in hist.iter().enumerate() {
        let could_continue = inst.observe(false)["can_continue"] == true;
        let r = match (op, slice) {
            (Op::Cont, Some(k)) if could_continue => {
                let first = inst.apply(&Op::ContAsync(k));
                if first == "ok:pending" {
                    inst.apply(&Op::ContAsyncFinish)
                } else if let Some(t) = first.strip_prefix("ok:done:") {
                    format!("ok:{t}")
                } else {
                    first
                }
            }
            _ => inst.apply(op),
        };
        if *op == Op::Cont && !could_continue {
            // a refused continue (C09): must be an error and must not deliver anything (the
            // exactly-once accounting below would show a re-delivery)
            if !r.starts_with("err") {
                bad = Some(("continued-when-cannot-continue".into(), format!("op {i}: continue accepted ({r}) although can_continue was false")));
                break;
            }
            continue;
        }
        if inst.fuel_exhausted {
            return;
        }
        if let Some(p) = r.strip_prefix("panic:") {
            bad = Some((format!("panic/{}/{p}", op.kind()), format!("{} panicked: {p}", op.kind())));
            break;
        }
        let o = inst.observe(false);
        match op {
            Op::Cont => {
                // the line this continue produced (also readable when cont() itself returned Err)
                let mut step_w: Vec<usize> = vec![];
                if let Some(t) = o["text"].as_str() {
                    step_w.extend(markers(t, 'W'));
                    epoch.e.extend(markers(t, 'E'));
                    for c in o["choices"].as_array().cloned().unwrap_or_default() {
                        let t = c["text"].as_str().unwrap_or("").to_string();
                        if !seen_choice_text.contains(&t) {
                            step_w.extend(markers(&t, 'W'));
                            seen_choice_text.push(t);
                        }
                    }
                }
                epoch.w.extend(step_w.iter().copied());
                if !setup.handler && !stopped_by_error {
                    // no handler: what is readable after a continue is what THAT continue raised
                    // (plus, for the first one, what the constructor or a reset left pending)
                    let now: Vec<String> = o["warnings"].as_array().cloned().unwrap_or_default().iter().map(|w| w.as_str().unwrap_or("").to_string()).collect();
                    for n in 1..=9usize {
                        let expected = step_w.iter().filter(|&&k| k == n).count();
                        let got = now.iter().filter(|m| m.contains(&format!("'ghost{n}'"))).count();
                        if got != expected {
                            let kind = if got > expected { "redelivered-or-spurious" } else { "lost" };
                            bad = Some((format!("no-handler/warning/{kind}"), format!("op {i}: this continue raised the warning about ghost{n} {expected} time(s) (markers in its text) but {got} are readable after it: {now:?}")));
                        }
                    }
                    let exp_v = usize::from(version_warning && first_cont_of_epoch);
                    let got_v = now.iter().filter(|m| m.contains("Version of ink")).count();
                    if bad.is_none() && got_v != exp_v {
                        bad = Some(("no-handler/version-warning/count".into(), format!("op {i}: the version warning is readable {got_v} time(s) after this continue, expected {exp_v}")));
                    }
                    if bad.is_some() {
                        break;
                    }
                }
                first_cont_of_epoch = false;
                if stopped_by_error && !r.starts_with("err") {
                    bad = Some(("continued-after-error".into(), format!("op {i}: a continue was accepted ({r}) although an error had stopped the story")));
                    break;
                }
                let has_err_now = if setup.handler {
                    inst.events_raw()[log_start..].iter().any(|e| e.starts_with("handler:E:"))
                } else {
                    o["errors"].as_array().map(|a| !a.is_empty()).unwrap_or(false)
                };
                if !setup.handler {
                    // no handler: Err iff this continue raised (or the story already has) an error
                    if has_err_now != r.starts_with("err") {
                        bad = Some(("no-handler/err-result-mismatch".into(), format!("op {i}: continue returned {r} but current errors = {}", o["errors"])));
                        break;
                    }
                } else if r.starts_with("err") && !stopped_by_error {
                    bad = Some(("handler/continue-returned-err".into(), format!("op {i}: with a handler set the continue returned {r}")));
                    break;
                }
                if has_err_now {
                    stopped_by_error = true;
                    if o["can_continue"] != false {
                        bad = Some(("can-continue-after-error".into(), format!("op {i}: can_continue is true after an error")));
                        break;
                    }
                }
            }
            Op::Reset => {
                epoch = Epoch { w: vec![], e: vec![] };
                first_cont_of_epoch = true;
                stopped_by_error = false;
                log_start = 0; // the harness clears its log on reset
                seen_choice_text.clear();
                if !setup.handler && o["errors"].as_array().map(|a| !a.is_empty()).unwrap_or(true) {
                    bad = Some(("errors-survive-reset".into(), "errors are still readable after reset_state".into()));
                    break;
                }
            }
            Op::ChoosePath(..) => {
                if r == "ok" {
                    // redirected: the story runs again; with a handler the delivered errors are gone,
                    // without one the error stays readable and keeps the story stopped
                    if setup.handler {
                        stopped_by_error = false;
                        epoch = Epoch { w: vec![], e: vec![] };
                        log_start = inst.events_raw().len();
                        seen_choice_text.clear();
                    }
                }
            }
            _ => {}
        }
    }
    if bad.is_none() {
        // exactly-once accounting for the last epoch
        let o = inst.observe(false);
        let msgs: Vec<(char, String)> = if setup.handler {
            inst.events_raw()[log_start.min(inst.events_raw().len())..]
                .iter()
                .filter_map(|e| {
                    let r = e.strip_prefix("handler:")?;
                    Some((r.chars().next()?, r[2..].to_string()))
                })
                .collect()
        } else {
            let mut v: Vec<(char, String)> = vec![];
            for w in o["warnings"].as_array().cloned().unwrap_or_default() {
                v.push(('W', w.as_str().unwrap_or("").to_string()));
            }
            for e in o["errors"].as_array().cloned().unwrap_or_default() {
                v.push(('E', e.as_str().unwrap_or("").to_string()));
            }
            v
        };
        let had_reset = hist.iter().any(|x| matches!(x, Op::Reset));
        let mode = if setup.handler { "handler" } else { "no-handler" };
        for n in 1..=9usize {
            let expected = epoch.w.iter().filter(|&&k| k == n).count();
            let got = msgs.iter().filter(|(t, m)| *t == 'W' && m.contains(&format!("'ghost{n}'"))).count();
            // without a handler warnings are never cleared by reset in the current design; only
            // judge epochs without reset there
            if !setup.handler {
                continue; // accounted for continue by continue above
            }
            if got != expected {
                let kind = if got > expected { "redelivered-or-spurious" } else { "lost" };
                bad = Some((format!("{mode}/warning/{kind}"), format!("warning about ghost{n}: raised {expected} time(s) on this path (markers in delivered text) but delivered {got} time(s)")));
                break;
            }
        }
        // an error after a line end is first met in look-ahead and rewound; it is raised for good
        // by the continue that follows the marker's line, so errors are only accounted for on
        // complete paths (the story has stopped)
        let complete = o["can_continue"] == false && o["choices"].as_array().map(|a| a.is_empty()).unwrap_or(true);
        if bad.is_none() && complete {
            let exp_e = epoch.e.len().min(1); // the first error stops the story
            let got_e = msgs.iter().filter(|(t, _)| *t == 'E').count();
            let redirected = hist.iter().any(|x| matches!(x, Op::ChoosePath(..)));
            if got_e != exp_e && !(redirected && !setup.handler) && !(!setup.handler && had_reset) {
                let kind = if got_e > exp_e { "redelivered-or-spurious" } else { "lost" };
                bad = Some((format!("{mode}/error/{kind}"), format!("{exp_e} error(s) raised on this path (E markers) but {got_e} delivered: {:?}", msgs.iter().filter(|(t, _)| *t == 'E').map(|(_, m)| m.clone()).collect::<Vec<_>>())));
            }
        }
        if bad.is_none() && version_warning && !had_reset && setup.handler {
            // (raised once per story object, so counted over the whole handler log, not only the
            // epoch that starts at a redirect)
            let got = if setup.handler {
                inst.events_raw().iter().filter(|e| e.starts_with("handler:W:") && e.contains("Version of ink")).count()
            } else {
                msgs.iter().filter(|(t, m)| *t == 'W' && m.contains("Version of ink")).count()
            };
            let any_cont = hist.iter().any(|x| matches!(x, Op::Cont));
            if any_cont && got != 1 {
                bad = Some((format!("{mode}/version-warning/count"), format!("the constructor's version warning was delivered {got} time(s)")));
            }
        }
    }
    stats.inc("paths_judged");
    if let Some((cls, what)) = bad {
        stats.violation(Violation {
            property: ID.into(),
            class: format!("{ID}/{cls}{}", if slice.is_some() { "/sliced" } else { "" }),
            what: format!("{what} (program {}{})", prog.name, slice.map(|k| format!(", every continue sliced after {k} step(s)")).unwrap_or_default()),
            artefact: hx::artefact("c13", prog, setup, json!({"history": hist_to_json(hist), "handler_log": inst.events_raw(), "final": inst.observe(false)})),
        });
    }
}

pub fn run(tier: Tier) -> i32 {
    let started = std::time::Instant::now();
    let (depth, secs) = match tier {
        Tier::Quick => (12, 45),
        Tier::Thorough => (16, 900),
    };
    // programs are compiled once; every worker rebuilds its own (Rc) instance from the JSON text
    let specs: Vec<(String, String, Vec<(String, usize)>, Vec<String>)> =
        programs_for(if tier == Tier::Quick { 2 } else { 3 }).iter().map(|p| (p.name.clone(), p.json.clone(), p.functions.clone(), p.plain_knots.clone())).collect();
    let n_progs = specs.len();
    let cases: Vec<(usize, bool)> = (0..n_progs).flat_map(|i| [(i, false), (i, true)]).collect();
    let ctl = RunCtl::new(secs);
    let (mut stats, done) = par_cases(cases.len(), &ctl, |c, st| {
        let (pi, handler) = cases[c];
        let (name, js, functions, plain_knots) = &specs[pi];
        let mut q = Prog::from_json(name, js);
        q.functions = functions.clone();
        q.plain_knots = plain_knots.clone();
        q.source = None;
        let p = &Rc::new(q);
        let setup = Setup { bind_externals: None, allow_fallbacks: true, handler, observers: vec![], seed: None };
        // alphabet: play; after an error (cannot continue, no choices): Reset once, or redirect once
        let knot = p.plain_knots.first().cloned();
        let sig = move |o: &Value, h: &[Op]| {
            let mut v = sigma_play(o);
            let ended = v.is_empty();
            if ended && !h.iter().any(|x| matches!(x, Op::Reset | Op::ChoosePath(..))) && !h.is_empty() {
                v.push(Op::Reset);
                v.push(Op::Cont); // a refused continue must not re-deliver anything
                if let Some(k) = &knot {
                    v.push(Op::ChoosePath(k.clone(), true));
                }
            }
            v
        };
        let hs = hx::histories(p, &setup, depth, &sig, st);
        for (h, _o) in &hs {
            judge_path(p, &setup, h, None, st);
            st.inc("traces");
            if handler {
                for k in [1u64, 2, 3, 5, 8] {
                    judge_path(p, &setup, h, Some(k), st);
                    st.inc("traces");
                    st.inc("traces_sliced");
                }
            }
        }
        st.sample(json!({"program": p.name, "handler": handler, "histories": hs.len()}));
        st.inc("programs");
    });
    stats.add("program_variants", n_progs as u64);
    let extra = mc_extras(
        &stats,
        json!({"history_depth": depth, "programs": n_progs, "setups": ["no handler", "handler"], "cases": cases.len(), "cases_done": done, "raise_kinds": ["undeclared variable read (warning)", "inkVersion 20 (constructor warning)", "integer used as divert target (error)", "ran out of content (error)"]}),
        cases.len(),
        done,
        secs,
    );
    finish(
        ID,
        tier,
        "model_checking",
        &stats,
        extra,
        vec![
            "raise model: a raise and its marker word are on the same line, so they are committed or discarded together; the markers in the delivered text are the raises that happened".into(),
            "without a handler the readable warnings are compared after every continue with the raises of that continue; with a handler every path is also played with each continue sliced (5 budgets); message texts are matched by the unique variable name only".into(),
        ],
        started,
    )
}

pub fn replay(art: &Value) -> String {
    let Some(prog) = prog_from_artefact(art) else { return "program no longer loads".into() };
    let setup = hx::setup_from_json(&art["setup"]);
    let hist = crate::inst::hist_from_json(&art["history"]);
    match Inst::build(&prog, &setup, &hist) {
        Ok((mut i, rs)) => format!("results {:?}\nhandler log {:?}\nfinal {}", rs, i.events_raw(), i.observe(false)),
        Err(e) => format!("construct failed: {e}"),
    }
}
