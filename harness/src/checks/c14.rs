//! C14 — both story loaders build the same story from the same JSON.
//! E-enum + E-proc (two builds). Documents: the reference corpus, this compiler's output on the
//! corpus and on the pool, and small template stories with every hostile string (all strings of
//! length <= 2 over {TAB, ", \, /, U+0001, U+001F, U+007F, e-acute, U+2028, U+1F600}) injected at
//! every text position (line text, tag, choice text, string value, list item / knot name where the
//! format allows), each also re-serialised (i) with every non-ASCII character as \uXXXX (surrogate
//! pairs), (ii) pretty-printed with spaces, tabs and CRLF, (iii) with alternative number
//! spellings. Oracle: (a) in one process both loader entry points (hook H4) must both succeed and
//! give the same content tree (the crate's own writer applied to both) and version; a document
//! that exactly one loader refuses is a disagreement; (b) the build with the
//! `stream-json-parser` feature must play every document with the same transcript as the default
//! build (second binary).
use super::{Tier, finish};
use crate::{
    eproc::{self, ProcCfg},
    hx::{self, sigma_play},
    inst::{Op, Setup, guarded, panic_class},
    pool,
    prog::{CompileOutcome, Prog},
    report::{Stats, Violation, hash_str},
};
use bladeink::verif::audit;
use serde_json::{Value, json};
use std::{rc::Rc, time::Duration};

pub const ID: &str = "C14";

pub const HOSTILE_CHARS: &[char] = &['\t', '"', '\\', '/', '\u{1}', '\u{1f}', '\u{7f}', '\u{e9}', '\u{2028}', '\u{1F600}'];

pub fn hostile_strings(max_len: usize) -> Vec<String> {
    let mut v: Vec<String> = HOSTILE_CHARS.iter().map(|c| c.to_string()).collect();
    if max_len >= 2 {
        for a in HOSTILE_CHARS {
            for b in HOSTILE_CHARS {
                v.push(format!("{a}{b}"));
            }
        }
    }
    v
}

/// serialise a JSON value with control over escaping / layout / number spelling
pub fn serialise(v: &Value, escape_non_ascii: bool, pretty: bool, alt_numbers: bool) -> String {
    fn esc(s: &str, escape_non_ascii: bool, out: &mut String) {
        out.push('"');
        for c in s.chars() {
            match c {
                '"' => out.push_str("\\\""),
                '\\' => out.push_str("\\\\"),
                '\n' => out.push_str("\\n"),
                '\r' => out.push_str("\\r"),
                '\t' => out.push_str("\\t"),
                c if (c as u32) < 0x20 => out.push_str(&format!("\\u{:04x}", c as u32)),
                c if escape_non_ascii && (c as u32) > 0x7e => {
                    let mut buf = [0u16; 2];
                    for u in c.encode_utf16(&mut buf) {
                        out.push_str(&format!("\\u{:04X}", u));
                    }
                }
                c => out.push(c),
            }
        }
        out.push('"');
    }
    fn rec(v: &Value, ea: bool, pretty: bool, alt: bool, depth: usize, out: &mut String) {
        let nl = |out: &mut String, d: usize| {
            if pretty {
                out.push_str("\r\n");
                for i in 0..d {
                    out.push_str(if i % 2 == 0 { "  " } else { "\t" });
                }
            }
        };
        match v {
            Value::Null => out.push_str("null"),
            Value::Bool(b) => out.push_str(if *b { "true" } else { "false" }),
            Value::Number(n) => {
                if alt {
                    if let Some(i) = n.as_i64() {
                        // integers keep their type: only the sign / leading form may change
                        out.push_str(&i.to_string());
                    } else if let Some(f) = n.as_f64() {
                        // a float spelled with an exponent
                        if f == 0.0 {
                            out.push_str("0.0E0");
                        } else if f.fract() == 0.0 && f.abs() < 1e9 {
                            out.push_str(&format!("{}.0e0", f as i64));
                        } else {
                            out.push_str(&format!("{}E-1", f * 10.0));
                        }
                    }
                } else {
                    out.push_str(&n.to_string());
                }
            }
            Value::String(s) => esc(s, ea, out),
            Value::Array(a) => {
                out.push('[');
                for (i, e) in a.iter().enumerate() {
                    if i > 0 {
                        out.push(',');
                        if pretty {
                            out.push(' ');
                        }
                    }
                    nl(out, depth + 1);
                    rec(e, ea, pretty, alt, depth + 1, out);
                }
                if !a.is_empty() {
                    nl(out, depth);
                }
                out.push(']');
            }
            Value::Object(m) => {
                out.push('{');
                for (i, (k, e)) in m.iter().enumerate() {
                    if i > 0 {
                        out.push(',');
                    }
                    nl(out, depth + 1);
                    esc(k, ea, out);
                    out.push(':');
                    if pretty {
                        out.push(' ');
                    }
                    rec(e, ea, pretty, alt, depth + 1, out);
                }
                if !m.is_empty() {
                    nl(out, depth);
                }
                out.push('}');
            }
        }
    }
    let mut out = String::new();
    rec(v, escape_non_ascii, pretty, alt_numbers, 0, &mut out);
    out
}

const TEMPLATE_SRC: &str = "VAR s = \"strval\"\nLIST l = (item), other\nLine text here. # tagtext\n* choice text [bracket] end # ctag\n    Body {s}.\n- {l} {1.5} {2}\n-> k\n=== k ===\nKnot text.\n-> END\n";

#[derive(Clone)]
pub struct Doc {
    pub id: String,
    pub feature: String,
    pub text: String,
}

fn string_positions(v: &Value, cur: &mut Vec<String>, out: &mut Vec<Vec<String>>) {
    match v {
        Value::String(s) if s.starts_with('^') => out.push(cur.clone()),
        Value::Array(a) => {
            for (i, e) in a.iter().enumerate() {
                cur.push(i.to_string());
                string_positions(e, cur, out);
                cur.pop();
            }
        }
        Value::Object(m) => {
            for (k, e) in m {
                cur.push(format!("k:{k}"));
                if k == "#" {
                    // tag text (legacy form) / keep generic
                }
                string_positions(e, cur, out);
                cur.pop();
            }
        }
        _ => {}
    }
}

fn set_at(v: &mut Value, path: &[String], f: &dyn Fn(&str) -> String) {
    let mut cur = v;
    for seg in path {
        cur = if let Some(k) = seg.strip_prefix("k:") { cur.get_mut(k).unwrap() } else { cur.get_mut(seg.parse::<usize>().unwrap()).unwrap() };
    }
    if let Value::String(s) = cur {
        *s = f(s);
    }
}

pub fn documents(tier: Tier) -> Vec<Doc> {
    let mut base: Vec<(String, String, Value)> = vec![];
    let max = if tier == Tier::Quick { 8_000 } else { 10_000_000 };
    for (name, src, js) in pool::corpus_pairs() {
        if let Ok(t) = std::fs::read_to_string(&js) {
            let t = t.trim_start_matches('\u{feff}').to_string();
            if t.len() <= max
                && let Ok(v) = serde_json::from_str::<Value>(&t)
            {
                base.push((format!("ref:{name}"), "reference-corpus".into(), v));
            }
        }
        if let Ok(s) = std::fs::read_to_string(&src)
            && s.len() <= max
            && !s.contains("INCLUDE")
            && let CompileOutcome::Ok(p) = Prog::from_source(&name, &s)
            && let Ok(v) = serde_json::from_str::<Value>(&p.json)
        {
            base.push((format!("rust:{name}"), "rust-compiled-corpus".into(), v));
        }
    }
    for (n, s) in pool::base_sources() {
        if let CompileOutcome::Ok(p) = Prog::from_source(n, s)
            && let Ok(v) = serde_json::from_str::<Value>(&p.json)
        {
            base.push((format!("pool:{n}"), "pool".into(), v));
        }
    }
    // number forms at the edges of what an i32 / f32 can carry (a loader must keep an integer
    // literal exact, not squeeze it through a float)
    let numbers = "VAR big = 123456789\nVAR edge = 16777217\nVAR top = 2147483647\nVAR low = -2147483647\nVAR f = 0.1\nVAR g = 16777216.0\nVAR tiny = 0.000001\n\
        {big} {edge} {top} {low} {f} {g} {tiny}\n{big % 10} {edge == 16777216} {top - 2000000001} {low + 2147483646} {2000000001} {1000000007 * 3}\n\
        {big / 1000} {f + f} {0.5} {1.5 * 2} {100000.5} {3.0}\n* [{edge}] pick {top}\n- {big - 123456788}\n-> END\n";
    if let CompileOutcome::Ok(p) = Prog::from_source("numbers", numbers)
        && let Ok(v) = serde_json::from_str::<Value>(&p.json)
    {
        base.push(("gen:numbers".into(), "number-edges".into(), v));
    }
    // every high surrogate x three low surrogates (3072 code points of planes 1..16) as story
    // text, a tag and a choice: in the "escaped" serialisations each is written as a \uXXXX\uXXXX
    // pair, so every bit pattern of the pair arithmetic is exercised
    if let CompileOutcome::Ok(p) = Prog::from_source("planes", "MARKA\n# MARKB\n* MARKC\n- -> END\n") {
        let mut all = String::new();
        let mut some = String::new();
        for hi in 0xD800u32..0xDC00 {
            for lo in [0xDC00u32, 0xDEB7, 0xDFFF] {
                let cp = 0x10000 + ((hi - 0xD800) << 10) + (lo - 0xDC00);
                if let Some(c) = char::from_u32(cp) {
                    all.push(c);
                    if (hi - 0xD800) % 64 == 3 && lo == 0xDEB7 {
                        some.push(c);
                    }
                }
            }
        }
        let t = p.json.replace("MARKA", &all).replace("MARKB", &some).replace("MARKC", &some);
        if let Ok(v) = serde_json::from_str::<Value>(&t) {
            base.push(("gen:planes".into(), "supplementary-planes".into(), v));
        }
    }
    let mut docs = vec![];
    for (id, feat, v) in &base {
        for (vn, ea, pretty, alt) in [("plain", false, false, false), ("escaped", true, false, false), ("pretty", false, true, false), ("numbers", false, false, true), ("all", true, true, true)] {
            docs.push(Doc { id: format!("{id}/{vn}"), feature: format!("{feat}/{vn}"), text: serialise(v, ea, pretty, alt) });
        }
    }
    // hostile strings injected into the template at every text position
    if let CompileOutcome::Ok(p) = Prog::from_source("template", TEMPLATE_SRC)
        && let Ok(tv) = serde_json::from_str::<Value>(&p.json)
    {
        let mut pos = vec![];
        string_positions(&tv, &mut vec![], &mut pos);
        let strings = hostile_strings(if tier == Tier::Quick { 2 } else { 2 });
        for (pi, ppath) in pos.iter().enumerate() {
            for (si, hs) in strings.iter().enumerate() {
                let mut d = tv.clone();
                set_at(&mut d, ppath, &|old: &str| format!("{old}{hs}x"));
                for (vn, ea, pretty) in [("plain", false, false), ("escaped", true, false), ("pretty", false, true)] {
                    let cls: String = char_classes(hs);
                    docs.push(Doc { id: format!("inject:pos{pi}:str{si}/{vn}"), feature: format!("hostile-string/{cls}/{vn}"), text: serialise(&d, ea, pretty, false) });
                }
            }
        }
        // the same hostile strings as a tag, a list item name, a knot name and a variable name
        for (si, hs) in strings.iter().enumerate() {
            let cls: String = char_classes(hs);
            let js = serialise(&tv, false, false, false);
            for (what, from) in [("tag", "tagtext"), ("list-item", "item"), ("knot-name", "\"k\""), ("var-name", "strval")] {
                let esc_h = serialise(&Value::String(format!("{hs}")), false, false, false);
                let inner = &esc_h[1..esc_h.len() - 1];
                let to = if what == "knot-name" { format!("\"k{inner}\"") } else { format!("{from}{inner}") };
                docs.push(Doc { id: format!("inject:{what}:str{si}"), feature: format!("hostile-{what}/{cls}"), text: js.replace(from, &to) });
            }
        }
    }
    docs
}

fn transcript(json_text: &str) -> String {
    let p = Rc::new(Prog::from_json("doc", json_text));
    let setup = Setup { bind_externals: Some(true), allow_fallbacks: true, handler: false, observers: vec![], seed: None };
    let mut st = Stats::default();
    let sig = |o: &Value, _h: &[Op]| sigma_play(o);
    let mut t = String::new();
    if let Err(e) = crate::inst::Inst::new(&p, &setup) {
        return format!("construct:{}", if e.starts_with("panic") { "panic".to_string() } else { e.split(':').take(2).collect::<Vec<_>>().join(":") });
    }
    hx::explore(&p, &setup, 6, &sig, false, &mut st, &mut |h, rs, o, _i, _s| {
        t.push_str(&format!("{:?}|{:?}|{}|{}|{}|{};", h.last(), rs.last(), o["text"], o["tags"], o["choices"], o["globals"]));
        true
    });
    t
}

/// worker (run from the stream build): per document the play-transcript hash under Story::new
pub fn worker(tier: Tier, from: usize, to: usize) -> i32 {
    let docs = documents(tier);
    for i in from..to.min(docs.len()) {
        let t = transcript(&docs[i].text);
        eproc::emit(i, &format!("{}\u{1}{}", hash_str(&t), t.chars().take(160).collect::<String>()));
    }
    println!("DONE");
    0
}

pub fn run(tier: Tier) -> i32 {
    let started = std::time::Instant::now();
    let docs = documents(tier);
    let n = docs.len();
    let secs = if tier == Tier::Quick { 50 } else { 1800 };
    let mut stats = Stats::default();
    // (b) second build in the background
    let stream_bin = "/verif/target-stream/release/vrun";
    let have_stream = std::path::Path::new(stream_bin).exists();
    let cfg = ProcCfg {
        bin: stream_bin,
        args: vec!["c14-worker".into(), "--tier".into(), tier.name().into()],
        env: vec![],
        n,
        shards: 8,
        per_case: Duration::from_secs(20),
        deadline: started + Duration::from_secs(secs),
    };
    let handle = if have_stream { Some(std::thread::spawn(move || eproc::run_sharded(&cfg))) } else { None };
    // (a) in-process comparison of the two loader entry points + default-build transcripts
    let ctl = crate::report::RunCtl::new(secs);
    let default_hashes = std::sync::Mutex::new(vec![(0u64, String::new()); n]);
    let (st2, done) = crate::report::par_cases(n, &ctl, |i, st| {
        let d = &docs[i];
        st.inc("documents");
        let a = guarded(|| audit::load_default(&d.text));
        let b = guarded(|| audit::load_stream(&d.text));
        let mk = |class: String, what: String| Violation {
            property: ID.into(),
            class: format!("{ID}/{class}/{}", d.feature),
            what: format!("{what} [{}]", d.id),
            artefact: json!({"check": "c14", "doc": d.id, "text": d.text}),
        };
        match (&a, &b) {
            (Ok(Ok((va, ra, _la))), Ok(Ok((vb, rb, _lb)))) => {
                st.inc("both_loaded");
                st.see("loaded_docs", &d.id);
                let ja = guarded(|| audit::container_to_json(ra)).ok().and_then(|r| r.ok());
                let jb = guarded(|| audit::container_to_json(rb)).ok().and_then(|r| r.ok());
                if va != vb {
                    st.violation(mk("version-differs".into(), format!("the loaders read different inkVersion values: {va} vs {vb}")));
                } else if ja != jb {
                    let (sa, sb) = (ja.map(|j| j.to_string()).unwrap_or_default(), jb.map(|j| j.to_string()).unwrap_or_default());
                    let pos = sa.chars().zip(sb.chars()).position(|(x, y)| x != y).unwrap_or(sa.len().min(sb.len()));
                    let ctx = |s: &str| s.chars().skip(pos.saturating_sub(30)).take(70).collect::<String>();
                    st.violation(mk("tree-differs".into(), format!("the two loaders build different content trees; default …{}… stream …{}…", ctx(&sa), ctx(&sb))));
                }
            }
            (Ok(Err(_)), Ok(Err(_))) => st.inc("both_refused"),
            (Ok(Ok(_)), Ok(Err(e))) => st.violation(mk("only-default-loads".into(), format!("the default loader accepts the document, the streaming loader refuses it: {e}"))),
            (Ok(Err(e)), Ok(Ok(_))) => st.violation(mk("only-stream-loads".into(), format!("the streaming loader accepts the document, the default loader refuses it: {e}"))),
            (Err(p), _) => st.violation(mk(format!("default-loader-panic/{}", panic_class(p)), format!("the default loader panicked: {p}"))),
            (_, Err(p)) => st.violation(mk(format!("stream-loader-panic/{}", panic_class(p)), format!("the streaming loader panicked: {p}"))),
        }
        let t = transcript(&d.text);
        default_hashes.lock().unwrap()[i] = (hash_str(&t), t.chars().take(160).collect());
    });
    stats.merge(st2);
    // (b) compare with the stream build
    let mut compared = 0u64;
    if let Some(h) = handle {
        let (res, _d) = h.join().unwrap();
        let dh = default_hashes.into_inner().unwrap();
        for (i, payload) in &res.lines {
            let (hs, head) = payload.split_once('\u{1}').unwrap_or((payload, ""));
            compared += 1;
            if hs.parse::<u64>().ok() != Some(dh[*i].0) {
                let d = &docs[*i];
                stats.violation(Violation {
                    property: ID.into(),
                    class: format!("{ID}/play-differs/{}", d.feature),
                    what: format!("the build with stream-json-parser plays the document differently from the default build: default {:?} vs stream {:?} [{}]", dh[*i].1, head, d.id),
                    artefact: json!({"check": "c14", "doc": d.id, "text": d.text}),
                });
            }
        }
        for (i, how) in res.crashes.iter().chain(res.hangs.iter().map(|i| (*i, "hang".to_string())).collect::<Vec<_>>().iter()) {
            let d = &docs[*i];
            stats.violation(Violation { property: ID.into(), class: format!("{ID}/stream-build-crash/{}", d.feature), what: format!("the stream build died on this document ({how}) [{}]", d.id), artefact: json!({"check": "c14", "doc": d.id, "text": d.text}) });
        }
    } else {
        stats.notes.push("stream build (target-stream) not present: play comparison between the two builds skipped".into());
    }
    stats.add("stream_build_documents_compared", compared);
    stats.sample(json!({"doc": docs[0].id, "text_head": docs[0].text.chars().take(120).collect::<String>()}));
    stats.sample(json!({"doc": docs[n - 1].id, "text_head": docs[n - 1].text.chars().take(120).collect::<String>()}));
    let exhaustive = done == n;
    let extra = vec![
        ("evaluations", json!(done)),
        ("distinct_nontrivial", json!(stats.n_distinct("loaded_docs"))),
        ("rule", json!("document = (corpus reference / rust-compiled corpus / pool story) x serialisation variant, or template x hostile string x text position x variant; non-trivial = loaded by both loaders; distinct by document id")),
        ("exhaustive", json!(exhaustive)),
        ("bounds", json!({"documents": n, "documents_done": done, "hostile_chars": HOSTILE_CHARS.len(), "hostile_strings": hostile_strings(2).len(), "variants": ["plain", "escaped \\uXXXX", "pretty CRLF/tabs", "numbers", "all"], "play_depth": 6})),
        ("caps_hit", json!(if exhaustive { vec![] } else { vec![format!("wall cap {secs}s: {done}/{n} documents")] })),
    ];
    finish(
        ID,
        tier,
        "exploration",
        &stats,
        extra,
        vec![
            "tree equality uses the crate's own container writer on both trees (an asymmetry of the writer would affect both sides equally)".into(),
            "key order of the top-level object is kept as the compilers emit it (inkVersion, root, listDefs); reordering keys is not part of the enumerated space".into(),
        ],
        started,
    )
}

pub fn replay(art: &Value) -> String {
    let text = art["text"].as_str().unwrap_or("");
    let a = guarded(|| audit::load_default(text).map(|(v, r, _)| (v, audit::container_to_json(&r).map(|j| j.to_string()))));
    let b = guarded(|| audit::load_stream(text).map(|(v, r, _)| (v, audit::container_to_json(&r).map(|j| j.to_string()))));
    let f = |x: Result<Result<(i32, Result<String, bladeink::story_error::StoryError>), bladeink::story_error::StoryError>, String>| match x {
        Ok(Ok((v, Ok(j)))) => format!("ok v{v} tree-hash {}", hash_str(&j)),
        Ok(Ok((_, Err(e)))) => format!("loaded, writer failed: {e}"),
        Ok(Err(e)) => format!("refused: {e}"),
        Err(p) => format!("panic: {p}"),
    };
    format!("default: {}\nstream:  {}", f(a), f(b))
}

/// categories of the characters of a hostile string (sorted, unique) — the violation class
fn char_classes(s: &str) -> String {
    let mut v: Vec<&str> = s
        .chars()
        .map(|c| match c {
            '\t' => "tab",
            '"' => "quote",
            '\\' => "backslash",
            '/' => "slash",
            c if (c as u32) < 0x20 => "control",
            '\u{7f}' => "del",
            '\u{2028}' => "line-separator",
            c if (c as u32) > 0xFFFF => "astral",
            c if (c as u32) > 0x7f => "non-ascii",
            _ => "ascii",
        })
        .collect();
    v.sort();
    v.dedup();
    v.join("+")
}
