//! C15 — malformed story or save input is rejected with an error, not a crash.
//! E-proc + mutators: every single structural mutation (delete / duplicate / swap / rename / retype
//! to each of 16 values) of every node, truncation at every character and nesting bombs, applied
//! to (i) story documents covering every object kind, under both loaders, and (ii) saves taken at
//! explored points (inside functions and tunnels, with threads and choice threads, two flows, list
//! variables, temps). Each input is handled in a worker process: `Story::new` / `load_state` must
//! return Ok or Err within the per-input wall cap — no panic (caught in-process), no abort, stack
//! overflow or hang (caught by the parent and pinned to the input). After a refused load
//! `reset_state` must succeed and the story must replay like a fresh one; after an accepted load
//! of a damaged document, playing on must not panic either.
use super::{Tier, finish};
use crate::{
    eproc::{self, ProcCfg},
    hx::{self, sigma_play},
    inst::{Inst, Op, Setup, guarded, panic_class},
    mutate::{self, PathSeg},
    pool,
    prog::{CompileOutcome, Prog},
    report::{Stats, Violation},
};
use bladeink::verif::audit;
use serde_json::{Value, json};
use std::{rc::Rc, time::Duration};

pub const ID: &str = "C15";

/// (program name in the pool, history at which the save is taken)
fn save_points() -> Vec<(&'static str, Vec<Op>)> {
    // (the quick tier takes the first six: several flows, threads, a function frame, pending
    // choices, lists, a tunnel)
    vec![
        ("flows", vec![Op::Cont, Op::SwitchFlow("f1".into()), Op::ChoosePath("flow_a".into(), false), Op::Cont, Op::Cont, Op::SwitchFlow("f2".into()), Op::ChoosePath("flow_b".into(), false), Op::Cont]),
        ("threads", vec![Op::Cont, Op::Cont, Op::Cont]),
        ("funcs", vec![Op::Cont, Op::Cont, Op::Cont]),
        ("choices", vec![Op::Cont, Op::Choose(0), Op::Cont, Op::Cont, Op::Cont]),
        ("lists", vec![Op::Cont, Op::Cont]),
        ("tunnels", vec![Op::Cont, Op::Cont, Op::Cont]),
        ("lines", vec![Op::Cont]),
        ("thread_tunnel", vec![Op::Cont, Op::Cont, Op::Cont]),
        ("vardivert", vec![Op::Cont]),
        ("fallback_pending", vec![Op::Cont]),
        ("shuffle", vec![Op::Cont, Op::Cont]),
        ("strings", vec![Op::Cont]),
    ]
}

const STORY_DOCS: &[&str] = &["lines", "choices", "lists", "funcs", "tunnels", "vardivert", "threads", "tags", "strings", "externs", "seqs", "weave"];

#[derive(Clone)]
pub struct Base {
    pub kind: &'static str, // "story" | "save"
    pub name: String,
    pub program_json: String,
    pub doc: Value,
    pub doc_text: String,
    pub paths: Vec<Vec<PathSeg>>,
    /// content-path strings in the document: (node, which numeric component, replacement index)
    pub path_edits: Vec<(usize, usize, usize)>,
}

/// every numeric component of every dotted path string x the indices 0..=12 and 9999: a content
/// path whose index is at, just past or far past the end of the container it addresses
fn path_edits(doc: &Value, paths: &[Vec<PathSeg>]) -> Vec<(usize, usize, usize)> {
    let mut v = vec![];
    for (pi, p) in paths.iter().enumerate() {
        let mut cur = doc;
        for seg in p {
            cur = match seg {
                PathSeg::Key(k) => &cur[k],
                PathSeg::Idx(i) => &cur[*i],
            };
        }
        if let Some(s) = cur.as_str() {
            if s.starts_with('^') || s.contains(' ') {
                continue; // story text, not a path
            }
            let comps: Vec<&str> = s.split('.').collect();
            if comps.len() < 2 {
                continue;
            }
            for (ci, c) in comps.iter().enumerate() {
                if !c.is_empty() && c.chars().all(|ch| ch.is_ascii_digit()) {
                    for val in (0..=12).chain([9999]) {
                        if c.parse::<usize>().ok() != Some(val) {
                            v.push((pi, ci, val));
                        }
                    }
                }
            }
        }
    }
    v
}

fn apply_path_edit(b: &Base, k: usize) -> Option<(String, String, String)> {
    let (pi, ci, val) = *b.path_edits.get(k)?;
    let mut d = b.doc.clone();
    let mut cur = &mut d;
    for seg in &b.paths[pi] {
        cur = match seg {
            PathSeg::Key(k) => cur.get_mut(k)?,
            PathSeg::Idx(i) => cur.get_mut(*i)?,
        };
    }
    let s = cur.as_str()?.to_string();
    let mut comps: Vec<String> = s.split('.').map(|c| c.to_string()).collect();
    comps[ci] = val.to_string();
    let new = comps.join(".");
    *cur = Value::String(new.clone());
    let ptr = mutate::path_to_string(&b.paths[pi]);
    let cls = mutate::path_class(&b.paths[pi]);
    Some((format!("{cls}:path-index"), format!("path string at {ptr}: {s:?} -> {new:?}"), d.to_string()))
}

pub struct Space {
    pub bases: Vec<Base>,
    /// (base index, family, count)
    pub fams: Vec<(usize, &'static str, usize)>,
    pub bombs: Vec<(String, String)>,
}

fn setup() -> Setup {
    Setup { bind_externals: Some(true), allow_fallbacks: true, handler: false, observers: vec![], seed: None }
}

pub fn space(tier: Tier) -> Space {
    let (n_story, n_save) = match tier {
        Tier::Quick => (5, 6),
        Tier::Thorough => (STORY_DOCS.len(), 100),
    };
    let srcs: std::collections::HashMap<&str, &str> = pool::base_sources().into_iter().collect();
    let mut bases = vec![];
    for name in STORY_DOCS.iter().take(n_story) {
        if let Some(src) = srcs.get(name)
            && let CompileOutcome::Ok(p) = Prog::from_source(name, src)
            && let Ok(doc) = serde_json::from_str::<Value>(&p.json)
        {
            let paths = mutate::json_paths(&doc);
            let path_edits = path_edits(&doc, &paths);
            bases.push(Base { kind: "story", name: name.to_string(), program_json: p.json.clone(), doc_text: p.json.clone(), doc, paths, path_edits });
        }
    }
    for (name, hist) in save_points().into_iter().take(n_save) {
        if let Some(src) = srcs.get(name)
            && let CompileOutcome::Ok(p) = Prog::from_source(name, src)
            && let Ok((inst, _)) = Inst::build(&p, &setup(), &hist)
            && let Some(story) = &inst.story
            && let Ok(save) = story.save_state()
            && let Ok(doc) = serde_json::from_str::<Value>(&save)
        {
            let paths = mutate::json_paths(&doc);
            let path_edits = path_edits(&doc, &paths);
            bases.push(Base { kind: "save", name: name.to_string(), program_json: p.json.clone(), doc_text: save, doc, paths, path_edits });
        }
    }
    let mut fams = vec![];
    for (bi, b) in bases.iter().enumerate() {
        fams.push((bi, "mutate", b.paths.len() * (4 + mutate::json_retypes().len())));
        fams.push((bi, "truncate", b.doc_text.chars().count()));
        fams.push((bi, "path-index", b.path_edits.len()));
    }
    let mut bombs = vec![];
    for depth in [100usize, 1_000, 10_000, 100_000] {
        bombs.push((format!("array-bomb-{depth}"), format!("{}{}", "[".repeat(depth), "]".repeat(depth))));
        bombs.push((format!("object-bomb-{depth}"), format!("{}1{}", "{\"a\":".repeat(depth), "}".repeat(depth))));
        bombs.push((format!("root-array-bomb-{depth}"), format!("{{\"inkVersion\":21,\"root\":{}{},\"listDefs\":{{}}}}", "[".repeat(depth), "]".repeat(depth))));
        bombs.push((format!("unclosed-bomb-{depth}"), "[".repeat(depth)));
    }
    for (n, t) in [("empty", ""), ("null", "null"), ("number", "42"), ("string", "\"x\""), ("empty-object", "{}"), ("empty-array", "[]"), ("garbage", "\u{0}\u{1}garbage{{{"), ("version-only", "{\"inkVersion\":21}"), ("root-null", "{\"inkVersion\":21,\"root\":null,\"listDefs\":{}}"), ("root-string", "{\"inkVersion\":21,\"root\":\"x\",\"listDefs\":{}}"), ("version-huge", "{\"inkVersion\":99999999999,\"root\":[\"done\",null],\"listDefs\":{}}"), ("version-old", "{\"inkVersion\":1,\"root\":[\"done\",null],\"listDefs\":{}}"), ("save-version-old", "{\"inkSaveVersion\":1}"), ("save-version-only", "{\"inkSaveVersion\":10}"), ("bom", "\u{feff}{}")] {
        bombs.push((n.to_string(), t.to_string()));
    }
    Space { bases, fams, bombs }
}

impl Space {
    pub fn len(&self) -> usize {
        self.fams.iter().map(|f| f.2).sum::<usize>() + self.bombs.len() * 2
    }
    pub fn is_empty(&self) -> bool {
        self.len() == 0
    }
    /// (kind, base name, class tag, description, text, program json)
    pub fn nth(&self, mut idx: usize) -> Option<(String, String, String, String, String, String)> {
        for (bi, fam, cnt) in &self.fams {
            if idx >= *cnt {
                idx -= cnt;
                continue;
            }
            let b = &self.bases[*bi];
            return match *fam {
                "mutate" => {
                    let m = mutate::json_mutation_nth(&b.doc, &b.paths, idx)?;
                    Some((b.kind.to_string(), b.name.clone(), m.class, m.desc, m.doc.to_string(), b.program_json.clone()))
                }
                "path-index" => {
                    let (class, desc, text) = apply_path_edit(b, idx)?;
                    Some((b.kind.to_string(), b.name.clone(), class, desc, text, b.program_json.clone()))
                }
                _ => {
                    let end = b.doc_text.char_indices().nth(idx).map(|(p, _)| p).unwrap_or(b.doc_text.len());
                    Some((b.kind.to_string(), b.name.clone(), "truncate".into(), format!("truncate to {idx} chars"), b.doc_text[..end].to_string(), b.program_json.clone()))
                }
            };
        }
        // bombs: first as story documents, then as saves
        let nb = self.bombs.len();
        if idx < nb * 2 {
            let (n, t) = &self.bombs[idx % nb];
            let kind = if idx < nb { "story" } else { "save" };
            let pj = self.bases.first().map(|b| b.program_json.clone()).unwrap_or_default();
            return Some((kind.to_string(), "bomb".into(), format!("bomb:{}", n.trim_end_matches(char::is_numeric).trim_end_matches('-')), n.clone(), t.clone(), pj));
        }
        None
    }
}

fn play_transcript(prog: &Rc<Prog>, pre: &[Op], depth: usize) -> (String, Option<String>) {
    let mut st = Stats::default();
    let n0 = pre.len();
    let pre_v = pre.to_vec();
    let sig = move |o: &Value, h: &[Op]| if h.len() < n0 { vec![pre_v[h.len()].clone()] } else { sigma_play(o) };
    let mut t = String::new();
    let mut panic = None;
    hx::explore(prog, &setup(), n0 + depth, &sig, false, &mut st, &mut |h, rs, o, _i, _s| {
        if h.len() >= n0 {
            let last = if h.len() == n0 { None } else { rs.last() };
            t.push_str(&format!("{:?}|{}|{}|{};", last, o["text"], o["choices"], o["globals"]));
        }
        if let Some(p) = rs.iter().find_map(|r| r.strip_prefix("panic:")) {
            panic = Some(p.to_string());
        }
        if let Some(d) = o.get("dead").and_then(|d| d.as_str()) {
            panic = Some(d.to_string());
        }
        true
    });
    (t, panic)
}

/// judge one input in this process; returns violations (class suffix, what)
pub fn judge(kind: &str, text: &str, program_json: &str) -> (String, Vec<(String, String)>) {
    let mut viol = vec![];
    let mut status = String::new();
    bladeink::verif::set_forced_seed(Some(42));
    // damaged stories often loop: a small step budget per instance keeps the sweep fast (a case
    // that burns it simply yields no verdict for the play-on part)
    crate::inst::set_fuel_override(Some(4_000));
    if kind == "story" {
        for (lname, which) in [("default-loader", 0), ("stream-loader", 1)] {
            let r = guarded(|| if which == 0 { audit::load_default(text).map(|_| ()) } else { audit::load_stream(text).map(|_| ()) });
            match r {
                Err(p) => viol.push((format!("panic/{lname}/{}", panic_class(&p)), format!("{lname} panicked: {p}"))),
                Ok(Ok(())) => status.push_str(&format!("{lname}:ok ")),
                Ok(Err(_)) => status.push_str(&format!("{lname}:err ")),
            }
        }
        // the configured loader through the public constructor, then play on
        let prog = Rc::new(Prog::from_json("mutant", text));
        match Inst::new(&prog, &setup()) {
            Err(e) if e.starts_with("panic:") => viol.push((format!("panic/Story::new/{}", panic_class(&e[6..])), format!("Story::new panicked: {e}"))),
            Err(_) => {}
            Ok(_) => {
                let (_t, p) = play_transcript(&prog, &[], 4);
                if p.is_some() {
                    // beyond the property (it speaks of constructing and loading, and of playing
                    // after a FAILED load): counted, not judged
                    status.push_str("beyond:play-panic ");
                }
            }
        }
    } else {
        let prog = Rc::new(Prog::from_json("base", program_json));
        let load = vec![Op::LoadText(text.to_string())];
        match Inst::build(&prog, &setup(), &load) {
            Err(e) => viol.push(("machinery/base-program".into(), e)),
            Ok((mut inst, rs)) => {
                let r = rs[0].clone();
                status = r.clone();
                if let Some(p) = r.strip_prefix("panic:") {
                    viol.push((format!("panic/load_state/{p}"), format!("load_state panicked: {p}")));
                } else if r.starts_with("err") {
                    // refused: reset must work and the story must replay like a fresh one
                    let rr = inst.apply(&Op::Reset);
                    if rr != "ok" {
                        viol.push((format!("reset-after-failed-load/{rr}"), format!("reset_state after a refused load returned {rr}")));
                    } else {
                        let (t1, p1) = play_transcript(&prog, &[Op::LoadText(text.to_string()), Op::Reset], 3);
                        let (t2, _) = play_transcript(&prog, &[], 3);
                        if let Some(p) = p1 {
                            viol.push((format!("panic/play-after-reset/{p}"), format!("playing after a refused load + reset panicked: {p}")));
                        } else if t1 != t2 {
                            viol.push(("replay-differs-after-failed-load".into(), "after a refused load and reset_state the story does not replay like a fresh one".into()));
                        }
                    }
                } else {
                    // accepted: playing on must not panic
                    let (_t, p) = play_transcript(&prog, &load, 3);
                    if p.is_some() {
                        status.push_str(" beyond:play-panic");
                    }
                    let o = inst.observe(true);
                    if o.get("dead").and_then(|d| d.as_str()).is_some() {
                        // likewise beyond the property: the load itself returned Ok
                        status.push_str(" beyond:play-panic");
                    }
                }
            }
        }
    }
    (status, viol)
}

pub fn worker(tier: Tier, from: usize, to: usize) -> i32 {
    let sp = space(tier);
    for i in from..to.min(sp.len()) {
        let payload = match sp.nth(i) {
            None => "skip\u{2}".to_string(),
            Some((kind, _name, _cls, _desc, text, pj)) => {
                let (status, viol) = judge(&kind, &text, &pj);
                let v: Vec<String> = viol.iter().map(|(c, w)| format!("{c}\u{1}{w}")).collect();
                format!("{status}\u{2}{}", v.join("\u{3}"))
            }
        };
        eproc::emit(i, &payload);
    }
    println!("DONE");
    0
}

pub fn run(tier: Tier) -> i32 {
    let started = std::time::Instant::now();
    let sp = space(tier);
    let n = sp.len();
    let secs = if tier == Tier::Quick { 55 } else { 2400 };
    let cfg = ProcCfg {
        bin: "/verif/target/release/vrun",
        args: vec!["c15-worker".into(), "--tier".into(), tier.name().into()],
        env: vec![],
        n,
        shards: crate::report::n_threads(),
        per_case: Duration::from_secs(10),
        deadline: started + Duration::from_secs(secs),
    };
    let (res, done) = eproc::run_sharded(&cfg);
    let mut stats = Stats::default();
    stats.add("inputs", n as u64);
    stats.add("workers_spawned", res.workers_spawned as u64);
    let mk = |i: usize, class: String, what: String| {
        let (kind, name, cls, desc, text, _) = sp.nth(i).unwrap_or_default();
        Violation {
            property: ID.into(),
            class: format!("{ID}/{class}"),
            what: format!("{what} [{kind} {name}: {desc}]"),
            artefact: json!({"check": "c15", "index": i, "tier": tier.name(), "kind": kind, "base": name, "mutation": desc, "mutation_class": cls, "input": text.chars().take(20000).collect::<String>()}),
        }
    };
    for (i, payload) in &res.lines {
        let (status, rest) = payload.split_once('\u{2}').unwrap_or((payload, ""));
        if status == "skip" {
            stats.inc("skipped_no_op_mutations");
            continue;
        }
        stats.inc("judged");
        let (kind, name, cls, ..) = sp.nth(*i).unwrap_or_default();
        stats.inc(&format!("kind::{kind}"));
        stats.see("inputs_judged", &i.to_string());
        stats.see("bases", &format!("{kind}:{name}"));
        if status.contains("ok") {
            stats.inc("accepted_by_a_loader");
        }
        if status.contains("beyond:play-panic") {
            stats.inc("beyond_property::accepted_damaged_input_panics_when_played");
        }
        for v in rest.split('\u{3}').filter(|s| !s.is_empty()) {
            let (c, w) = v.split_once('\u{1}').unwrap_or((v, ""));
            // class = what failed (panic site) + where in the document and how it was damaged
            // (the kind of mutation, not the replacement value)
            let cls = cls.split("=").next().unwrap_or("").to_string();
            stats.violation(mk(*i, format!("{c}/{kind}:{cls}"), w.replace("\\n", "\n")));
        }
    }
    for (i, how) in &res.crashes {
        let (kind, _n, cls, ..) = sp.nth(*i).unwrap_or_default();
        stats.violation(mk(*i, format!("abort/{kind}:{cls}"), format!("the process died ({how})")));
    }
    for i in &res.hangs {
        let (kind, _n, cls, ..) = sp.nth(*i).unwrap_or_default();
        stats.violation(mk(*i, format!("hang/{kind}:{cls}"), "no answer within the 10 s per-input cap".into()));
    }
    if let Some((kind, name, _c, desc, text, _)) = (0..2000).find_map(|i| sp.nth(i)) {
        stats.sample(json!({"kind": kind, "base": name, "mutation": desc, "input_head": text.chars().take(100).collect::<String>()}));
    }
    let exhaustive = done >= n;
    let extra = vec![
        ("evaluations", json!(stats.get("judged") + res.crashes.len() as u64 + res.hangs.len() as u64)),
        ("distinct_nontrivial", json!(stats.n_distinct("inputs_judged"))),
        ("rule", json!("inputs = every single structural mutation of every node + truncation at every character of each base document + nesting bombs and degenerate documents; non-trivial = the mutation changed the document (no-op mutations are skipped and counted); distinct by input index")),
        ("exhaustive", json!(exhaustive)),
        ("bounds", json!({"inputs": n, "inputs_done": done, "base_documents": sp.bases.iter().map(|b| format!("{}:{}", b.kind, b.name)).collect::<Vec<_>>(), "retype_values": mutate::json_retypes().len(), "per_input_wall_cap_s": 10, "bombs": sp.bombs.len()})),
        ("caps_hit", json!(if exhaustive { vec![] } else { vec![format!("wall cap {secs}s: {done}/{n} inputs")] })),
    ];
    finish(
        ID,
        tier,
        "fault_enumeration",
        &stats,
        extra,
        vec![
            "a panic is caught in the worker (catch_unwind); an abort, stack overflow or hang is detected by the parent and pinned to the input".into(),
            "saves are loaded into a story of the program they were taken from".into(),
        ],
        started,
    )
}

pub fn replay(art: &Value) -> String {
    let sp = space(if art["tier"] == "thorough" { Tier::Thorough } else { Tier::Quick });
    let i = art["index"].as_u64().unwrap_or(0) as usize;
    match sp.nth(i) {
        Some((kind, name, _c, desc, text, pj)) => {
            let (status, viol) = judge(&kind, &text, &pj);
            format!("{kind} {name}: {desc}\nstatus {status}\nviolations {viol:?}")
        }
        None => "no such input".into(),
    }
}
