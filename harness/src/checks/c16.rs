//! C16 — evaluating an Ink function from the host does not disturb the story.
//! E-hx lockstep with injection: at every node of the history tree (mid-paragraph, at choice
//! points, at the end, inside a named flow, right after a load) every pure pool function is
//! evaluated; result = hand-computed expectation where one exists, twice gives the same result,
//! and the instance stays bisimilar to the uninjected one apart from the visit counts of the
//! functions themselves. Unknown/empty names and bad argument types are refused without change.
use super::{Tier, common::*, finish};
use crate::{
    hx::Mismatch,
    inst::{Op, Setup, Val},
    pool,
    prog::Prog,
    report::{RunCtl, par_cases},
};
use serde_json::{Value, json};

pub const ID: &str = "C16";

fn fn_norm(p: &Prog) -> String {
    let names: Vec<String> = p.functions.iter().map(|(n, _)| n.clone()).collect();
    format!("drop-counts:{}", names.join(","))
}

fn pairs(p: &Prog, prefix: &[Op], obs: &Value) -> Vec<Pair> {
    let mut v = vec![];
    if obs["errors"].as_array().map(|a| !a.is_empty()).unwrap_or(false) {
        return v;
    }
    let norm = fn_norm(p);
    for (name, args, _exp) in pool::pure_function_calls() {
        if !p.functions.iter().any(|(n, np)| n == name && *np == args.len()) {
            continue;
        }
        let ev = Op::Eval(name.to_string(), args.clone());
        let mut a = prefix.to_vec();
        a.push(ev.clone());
        v.push(Pair { kind: format!("eval:{name}"), hist_a: a.clone(), hist_b: prefix.to_vec(), norm: norm.clone(), injected: 1 });
        // evaluated twice: same result (judged), still undisturbed
        a.push(ev);
        v.push(Pair { kind: format!("eval-twice:{name}"), hist_a: a, hist_b: prefix.to_vec(), norm: norm.clone(), injected: 2 });
    }
    // refused calls
    let mut bad: Vec<(&str, Op)> = vec![
        ("invalid:unknown", Op::Eval("no_such_fn".into(), vec![])),
        ("invalid:empty", Op::Eval("".into(), vec![])),
    ];
    if let Some((f, np)) = p.functions.iter().find(|(_, np)| *np >= 1) {
        let mut args = vec![];
        for _ in 1..*np {
            args.push(Val::Int(1));
        }
        args.push(Val::Divert("nowhere".into()));
        bad.push(("invalid:bad-arg-type", Op::Eval(f.clone(), args)));
    }
    for (k, op) in bad {
        let mut a = prefix.to_vec();
        a.push(op);
        v.push(Pair { kind: k.into(), hist_a: a, hist_b: prefix.to_vec(), norm: String::new(), injected: 1 });
    }
    v
}

fn judge(pair: &Pair, rs: &[String]) -> Option<(String, String)> {
    if let Some(p) = rs.iter().find_map(|r| r.strip_prefix("panic:")) {
        return Some((format!("panic/{}/{p}", pair.kind), format!("evaluate_function panicked: {p}")));
    }
    if pair.kind.starts_with("invalid:") {
        return if rs[0].starts_with("err:") {
            None
        } else {
            Some((format!("ok-instead-of-err/{}", pair.kind), format!("{} returned {}", pair.kind, rs[0])))
        };
    }
    let name = pair.kind.split(':').nth(1).unwrap_or("");
    if !rs[0].starts_with("ok:") {
        return Some((format!("refused/{name}/{}", rs[0]), format!("evaluate_function({name}) returned {}", rs[0])));
    }
    if rs.len() == 2 && rs[0] != rs[1] {
        return Some((format!("repeat-differs/{name}"), format!("evaluate_function({name}) twice: {} then {}", rs[0], rs[1])));
    }
    if let Some((_, _, Some(exp))) = pool::pure_function_calls().into_iter().find(|(n, _, _)| *n == name)
        && rs[0] != exp
    {
        return Some((format!("wrong-result/{name}"), format!("evaluate_function({name}) returned {} but the Ink rules give {exp}", rs[0])));
    }
    None
}

fn class(pair: &Pair, m: &Mismatch, _obs: &Value) -> String {
    let top = m.field.split('.').next().unwrap_or("");
    let sub = if top == "save" { m.field.split('.').nth(1).unwrap_or("") } else { "" };
    let when = if m.suffix.is_empty() { "immediate" } else { "later" };
    let in_flow = pair.hist_b.iter().any(|o| matches!(o, Op::SwitchFlow(_)));
    format!("trace/{}/{}/{}{}{}", pair.kind, when, top, if sub.is_empty() { String::new() } else { format!(".{sub}") }, if in_flow { "/named-flow" } else { "" })
}

pub fn run(tier: Tier) -> i32 {
    let started = std::time::Instant::now();
    let (h, d, k, a, secs) = match tier {
        Tier::Quick => (3, 2, 1, 4, 55),
        Tier::Thorough => (4, 3, 2, 8, 2400),
    };
    // only programs that define at least one of the pure pool functions
    let mut set: Vec<ProgSrc> = pause_programs();
    set.extend(program_set(k, a, 0));
    let ctl = RunCtl::new(secs);
    let spec = PairSpec {
        id: ID,
        check: "c16",
        hist_depth: h,
        lock_depth: d,
        hist_sigma: "rich-noslice",
        lock_sigma: "play+switch+jump",
        // the property is about what the story shows and counts afterwards, not about the save
        // text: compare behaviour only (a disturbed internal cursor must show up in later counts)
        with_save: false,
        pairs: &pairs,
        judge: &judge,
        class: &class,
    };
    let su = Setup { bind_externals: Some(true), allow_fallbacks: true, handler: false, observers: vec![], seed: None };
    const SHARDS: usize = 8;
    let (stats, done) = par_cases(set.len() * SHARDS, &ctl, |n, st| {
        let (i, shard) = (n / SHARDS, n % SHARDS);
        if let Some(p) = set[i].load() {
            if p.functions.is_empty() {
                if shard == 0 {
                    st.inc("programs_without_functions");
                }
                return;
            }
            let mut su = su.clone();
            if let Some(g) = p.globals.first() {
                su.observers.push((0, g.clone()));
            }
            run_pairs_sharded(&p, &su, &spec, st, shard, SHARDS);
            if shard == 0 {
                st.inc("programs");
            }
        } else if shard == 0 {
            st.inc("rejected_by_compiler");
        }
    });
    let done = done / SHARDS;
    let extra = mc_extras(
        &stats,
        json!({"history_depth": h, "lockstep_depth": d, "segment_family": [k, a], "programs": set.len(), "programs_done": done, "functions": pool::pure_function_calls().iter().map(|(n, _, _)| *n).collect::<Vec<_>>()}),
        set.len(),
        done,
        secs,
    );
    finish(
        ID,
        tier,
        "model_checking",
        &stats,
        extra,
        vec![
            "the evaluated functions are the pool's designated pure functions; expected results for 11 of them were worked out by hand from the Ink rules".into(),
            "visit counts / turn indices of function containers are excluded from the comparison (the property allows the function's own count to change; nested callees are functions too)".into(),
        ],
        started,
    )
}
