//! C17 — resetting a story is equivalent to constructing it afresh.
//! E-hx lockstep: after every explored history (play, flows, host assignment, load-into-self, path
//! jump with call-stack reset, an abandoned time-limited slice, errors) `Reset` must make the
//! instance bisimilar to `Story::new` of the same program with the same seed; bindings, observers
//! and the handler stay attached (their callbacks are part of the compared observation).
//! Second part: `choose_path_string(k, reset=true)` keeps globals and counts but leaves a single
//! thread with a single call-stack element and no pending choices.
use super::{Tier, common::*, finish};
use crate::{
    hx::{self, Mismatch},
    inst::{Inst, Op, Setup, hist_to_json},
    prog::Prog,
    report::{RunCtl, Stats, Violation, par_cases},
};
use serde_json::{Value, json};
use std::rc::Rc;

pub const ID: &str = "C17";

fn pairs(_p: &Prog, prefix: &[Op], obs: &Value) -> Vec<Pair> {
    let mut a = prefix.to_vec();
    a.push(Op::Reset);
    // while a time-limited continue is unfinished the text getter is refused: the story is
    // mid-line and reset_state is allowed (required, C08) to refuse
    let kind = if obs["text"].is_object() { "reset-while-async" } else { "reset" };
    vec![Pair { kind: kind.into(), hist_a: a, hist_b: vec![], norm: String::new(), injected: 1 }]
}

fn judge(pair: &Pair, rs: &[String]) -> Option<(String, String)> {
    let r = &rs[0];
    let pending = pair.kind == "reset-while-async";
    if r == "ok" {
        None
    } else if let Some(p) = r.strip_prefix("panic:") {
        Some((format!("panic/reset/{p}"), format!("reset_state panicked: {r}")))
    } else if pending && r == "err:InvalidStoryState" {
        // refused while a time-limited continue is unfinished: allowed (C08), no verdict
        Some(("SKIP".into(), String::new()))
    } else {
        Some((format!("reset-refused/{r}"), format!("reset_state returned {r}")))
    }
}

fn class(pair: &Pair, m: &Mismatch, _obs: &Value) -> String {
    let top = m.field.split('.').next().unwrap_or("");
    let sub = if top == "save" || top == "globals" || top == "counts" {
        m.field.split('.').nth(1).unwrap_or("")
    } else {
        ""
    };
    // what the history contained that a plain play does not
    let mut feats = vec![];
    for o in &pair.hist_a {
        let f = match o {
            Op::SwitchFlow(_) => "flow",
            Op::SetVar(..) => "setvar",
            Op::LoadInto => "loadinto",
            Op::ChoosePath(..) => "jump",
            Op::ContAsync(_) => "slice",
            _ => continue,
        };
        if !feats.contains(&f) {
            feats.push(f);
        }
    }
    let when = if m.suffix.is_empty() { "immediate" } else { "later" };
    format!("trace/reset/{when}/{top}{}{}", if sub.is_empty() { String::new() } else { format!(".{sub}") }, if feats.is_empty() { String::new() } else { format!("/after-{}", feats.join("+")) })
}

/// invariant part: path jump with call-stack reset
fn check_jump(prog: &Rc<Prog>, setup: &Setup, h: usize, stats: &mut Stats) {
    let Some(k) = prog.plain_knots.last().cloned() else { return };
    let hs = sigma_by_name("flows", prog);
    let mut prefixes: Vec<(Vec<Op>, Value)> = vec![];
    hx::explore(prog, setup, h, &*hs, true, stats, &mut |hh, _r, o, _i, _s| {
        prefixes.push((hh.to_vec(), o.clone()));
        true
    });
    for (prefix, before) in prefixes {
        if before.get("dead").is_some() || before["errors"].as_array().map(|a| !a.is_empty()).unwrap_or(true) {
            continue;
        }
        let mut hist = prefix.clone();
        hist.push(Op::ChoosePath(k.clone(), true));
        let Ok((mut inst, rs)) = Inst::build(prog, setup, &hist) else { continue };
        if inst.fuel_exhausted {
            continue;
        }
        stats.inc("jumps");
        let r = rs.last().unwrap();
        let after = inst.observe(true);
        let mut bad: Option<(String, String)> = None;
        if r != "ok" {
            bad = Some((format!("jump/result/{r}"), format!("choose_path_string({k}, true) returned {r}")));
        } else {
            // globals unchanged
            if before["globals"] != after["globals"] {
                bad = Some(("jump/globals".into(), "a path jump with call-stack reset changed global variables".into()));
            }
            // counts unchanged except the target knot (and containers inside it)
            if bad.is_none() {
                let (b, a) = (before["counts"].as_object().unwrap(), after["counts"].as_object().unwrap());
                for (p, v) in b {
                    if p == &k || p.starts_with(&format!("{k}.")) {
                        continue;
                    }
                    if a.get(p) != Some(v) {
                        bad = Some(("jump/counts".into(), format!("a path jump with call-stack reset changed the visit count of {p}")));
                        break;
                    }
                }
            }
            // all tunnels, threads, functions abandoned; no pending choices; can continue
            if bad.is_none() {
                let save = &after["save"];
                let cur = save["currentFlowName"].as_str().unwrap_or("DEFAULT_FLOW");
                let f = &save["flows"][cur];
                let threads = f["callstack"]["threads"].as_array().map(|t| t.len()).unwrap_or(0);
                let depth = f["callstack"]["threads"][0]["callstack"].as_array().map(|t| t.len()).unwrap_or(0);
                let choices = f["currentChoices"].as_array().map(|t| t.len()).unwrap_or(0);
                let operands = save["evalStack"].as_array().map(|t| t.len()).unwrap_or(0);
                if operands != 0 {
                    bad = Some(("jump/evalstack".into(), format!("after a path jump with call-stack reset {operands} operand(s) of the abandoned expression are still on the evaluation stack")));
                } else if threads != 1 || depth != 1 || choices != 0 || f.get("choiceThreads").is_some() {
                    bad = Some(("jump/callstack".into(), format!("after a path jump with call-stack reset the flow has {threads} thread(s), call-stack depth {depth}, {choices} pending choice(s)")));
                } else if after["can_continue"] != true {
                    bad = Some(("jump/cannot-continue".into(), "after a path jump the story cannot continue".into()));
                }
            }
        }
        if let Some((cls, what)) = bad {
            stats.violation(Violation {
                property: ID.into(),
                class: format!("{ID}/{cls}"),
                what,
                artefact: hx::artefact("c17-jump", prog, setup, json!({"history": hist_to_json(&hist), "before": before, "after": after})),
            });
        }
    }
}

pub fn run(tier: Tier) -> i32 {
    let started = std::time::Instant::now();
    let (h, d, k, a, corpus, secs) = match tier {
        Tier::Quick => (3, 3, 1, 16, 700, 45),
        Tier::Thorough => (4, 3, 2, 16, 6_000, 2400),
    };
    let mut set = program_set(k, a, corpus);
    // a story built by an older ink version carries a warning from construction on: a reset story
    // must carry it too
    for (n, s) in crate::pool::base_sources().into_iter().filter(|(n, _)| ["lines", "choices", "externs"].contains(n)) {
        set.push(ProgSrc::SourceV20(format!("{n}-v20"), s.to_string()));
    }
    // a warning raised while the global declarations run, at construction and at reset alike
    // (judged without a handler only: a handler can be installed after construction at the
    // earliest, so with one the two stories hear of it at different moments by design)
    set.push(ProgSrc::Source("decl-warning".into(), "VAR g = nope\nStart {g}.\nSecond.\n* pick\n    Picked {g}.\n- -> END\n".into()));
    let ctl = RunCtl::new(secs);
    let spec = PairSpec {
        id: ID,
        check: "c17",
        hist_depth: h,
        lock_depth: d,
        hist_sigma: "rich",
        lock_sigma: "play+switch",
        with_save: true,
        pairs: &pairs,
        judge: &judge,
        class: &class,
    };
    let (stats, done) = par_cases(set.len(), &ctl, |i, st| {
        if let Some(p) = set[i].load() {
            for handler in [false, true] {
                if handler && p.name == "decl-warning" {
                    continue;
                }
                let mut su = super::c09::setup_for(&p);
                su.handler = handler;
                run_pairs(&p, &su, &spec, st);
                if !handler {
                    check_jump(&p, &su, h, st);
                }
            }
            st.inc("programs");
        } else {
            st.inc("rejected_by_compiler");
        }
    });
    let extra = mc_extras(
        &stats,
        json!({"history_depth": h, "lockstep_depth": d, "segment_family": [k, a], "corpus_max_bytes": corpus, "programs": set.len(), "programs_done": done, "setups": ["observers+externals", "observers+externals+handler"]}),
        set.len(),
        done,
        secs,
    );
    finish(
        ID,
        tier,
        "model_checking",
        &stats,
        extra,
        vec![
            "fresh instance = Story::new of the same compiled JSON with the same forced seed, same bindings/observers/handler attached".into(),
            "the harness's callback log and line counter are cleared when reset_state returns Ok (host-side bookkeeping)".into(),
        ],
        started,
    )
}

pub fn replay(art: &Value) -> String {
    if art["check"] == "c17-jump" {
        let Some(prog) = prog_from_artefact(art) else { return "program no longer compiles".into() };
        let setup = hx::setup_from_json(&art["setup"]);
        let hist = crate::inst::hist_from_json(&art["history"]);
        match Inst::build(&prog, &setup, &hist) {
            Ok((mut i, rs)) => format!("results {:?}\nafter {}", rs, i.observe(true)),
            Err(e) => format!("construct failed: {e}"),
        }
    } else {
        replay_lockstep(art)
    }
}
