//! C18 — dropping a story releases all the memory it used.
//! E-enum with a counting global allocator (exact: allocation is not sampled). Every case runs in
//! a single-threaded worker process: a (program, history) pair is executed as N create-play-drop
//! cycles and the live byte count after cycle k must equal the count after cycle 1 (cycle 1 absorbs
//! lazily initialised state); for one instance, repeated play+reset and repeated load of its own
//! save must not grow the heap either. Programs are chosen by where diverts point (to an ancestor:
//! loops, gather loops; to siblings; variable diverts; tunnels; threads; choices held at drop time;
//! several flows) + the pool, the segment family and the corpus.
use super::{Tier, finish};
use crate::{
    eproc::{self, ProcCfg},
    hx::sigma_play,
    inst::{Inst, Op, Setup},
    pool,
    prog::{CompileOutcome, Prog},
    report::{Stats, Violation},
};
use serde_json::{Value, json};
use std::{
    alloc::{GlobalAlloc, Layout, System},
    rc::Rc,
    sync::atomic::{AtomicIsize, AtomicUsize, Ordering},
    time::Duration,
};

pub const ID: &str = "C18";

pub struct Counting;
static LIVE: AtomicIsize = AtomicIsize::new(0);
static ALLOCS: AtomicUsize = AtomicUsize::new(0);

unsafe impl GlobalAlloc for Counting {
    unsafe fn alloc(&self, l: Layout) -> *mut u8 {
        let p = unsafe { System.alloc(l) };
        if !p.is_null() {
            LIVE.fetch_add(l.size() as isize, Ordering::Relaxed);
            ALLOCS.fetch_add(1, Ordering::Relaxed);
        }
        p
    }
    unsafe fn dealloc(&self, p: *mut u8, l: Layout) {
        unsafe { System.dealloc(p, l) };
        LIVE.fetch_sub(l.size() as isize, Ordering::Relaxed);
    }
    unsafe fn realloc(&self, p: *mut u8, l: Layout, new_size: usize) -> *mut u8 {
        let q = unsafe { System.realloc(p, l, new_size) };
        if !q.is_null() {
            LIVE.fetch_add(new_size as isize - l.size() as isize, Ordering::Relaxed);
        }
        q
    }
}

pub fn live() -> isize {
    LIVE.load(Ordering::Relaxed)
}

const SHAPES: &[(&str, &str)] = &[
    ("loop-to-own-knot", "VAR i = 0\n-> k\n=== k ===\n~ i = i + 1\nLine {i}.\n{i < 4: -> k}\n-> END\n"),
    ("gather-loop", "VAR i = 0\n- (top)\n~ i = i + 1\nLine {i}.\n{i < 4: -> top}\n-> END\n"),
    ("choice-loop", "-> k\n=== k ===\nQ.\n+ [again] -> k\n* [stop] -> END\n"),
    ("stitch-loop", "-> k\n=== k ===\n= a\nA {k.a}.\n{k.a < 3: -> a}\n-> b\n= b\nB.\n-> END\n"),
    ("sibling-diverts", "-> a\n=== a ===\nA.\n-> b\n=== b ===\nB.\n-> c\n=== c ===\nC.\n-> END\n"),
    ("descendant-divert", "-> k.deep\n=== k ===\nTop.\n= deep\nDeep.\n-> END\n"),
    ("variable-divert-loop", "VAR t = -> k\nVAR i = 0\n-> t\n=== k ===\n~ i = i + 1\nK {i}.\n{i < 3: -> t}\n-> END\n"),
    ("tunnel-loop", "VAR i = 0\n-> k\n=== k ===\n~ i = i + 1\n-> t ->\n{i < 3: -> k}\n-> END\n=== t ===\nT {i}.\n->->\n"),
    ("recursive-function", "{f(5)}\n-> END\n=== function f(n) ===\n{ n <= 0:\n    ~ return 0\n}\n~ return n + f(n - 1)\n"),
    ("thread-with-choices", "-> k\n=== k ===\nMain.\n<- th\n+ [main again] -> k\n* [stop] -> END\n=== th ===\nThread.\n+ [thread again] -> k\n"),
    ("choices-held-at-drop", "Start.\n* a\n    A.\n* b\n    B.\n- End.\n-> END\n"),
    ("conditional-rejoin", "VAR x = 1\n-> k\n=== k ===\n{ x > 0:\n    Positive.\n- else:\n    Not.\n}\n{x == 1: one|other}\n~ x = x + 1\n{x < 4: -> k}\n-> END\n"),
    ("sequence-loop", "VAR i = 0\n-> k\n=== k ===\n~ i = i + 1\n{one|two|three} {&a|b} {~x|y}\n{i < 5: -> k}\n-> END\n"),
    ("list-ops-loop", "LIST l = (a), b, c\nVAR i = 0\n-> k\n=== k ===\n~ i = i + 1\n~ l += b\n{l} {LIST_ALL(l)} {LIST_INVERT(l)}\n~ l -= b\n{i < 4: -> k}\n-> END\n"),
    ("string-building-loop", "VAR s = \"\"\nVAR i = 0\n-> k\n=== k ===\n~ i = i + 1\n~ s = s + \"x{i}\"\n{s}\n{i < 4: -> k}\n-> END\n"),
];

#[derive(Clone)]
pub struct Case {
    pub prog_name: String,
    pub json: String,
    pub kind: &'static str,
}

const KINDS: &[&str] = &["create-play-drop/first-choices", "create-play-drop/last-choices", "create-play-drop/flows+save+load", "one-instance/play+reset", "one-instance/load-own-save"];

pub fn cases(tier: Tier) -> Vec<Case> {
    let mut progs: Vec<(String, String)> = vec![];
    for (n, s) in SHAPES {
        if let CompileOutcome::Ok(p) = Prog::from_source(n, s) {
            progs.push((format!("shape:{n}"), p.json.clone()));
        }
    }
    for (n, s) in pool::base_sources() {
        if let CompileOutcome::Ok(p) = Prog::from_source(n, s) {
            progs.push((format!("pool:{n}"), p.json.clone()));
        }
    }
    let (k, a, max) = match tier {
        Tier::Quick => (2, 16, 60_000usize),
        Tier::Thorough => (2, 16, 10_000_000),
    };
    for i in 0..pool::seg_count(k, a) {
        let (n, s) = pool::seg_nth(k, a, i);
        if let CompileOutcome::Ok(p) = Prog::from_source(&n, &s) {
            progs.push((format!("seg:{n}"), p.json.clone()));
        }
    }
    for (name, _src, js) in pool::corpus_pairs() {
        if let Ok(t) = std::fs::read_to_string(&js) {
            let t = t.trim_start_matches('\u{feff}').to_string();
            if t.len() <= max {
                progs.push((format!("ref:{name}"), t));
            }
        }
    }
    let mut v = vec![];
    for (n, j) in progs {
        for k in KINDS {
            v.push(Case { prog_name: n.clone(), json: j.clone(), kind: k });
        }
    }
    v
}

fn setup() -> Setup {
    Setup { bind_externals: Some(true), allow_fallbacks: true, handler: true, observers: vec![], seed: None }
}

/// play until the end (or `max_ops`), choosing the first / last choice
fn play(inst: &mut Inst, last: bool, max_ops: usize) {
    for _ in 0..max_ops {
        let o = inst.observe(false);
        let ops = sigma_play(&o);
        let Some(op) = (if last { ops.last() } else { ops.first() }) else { break };
        inst.apply(op);
        if inst.dead.is_some() || inst.fuel_exhausted {
            break;
        }
    }
}

/// returns Ok(()) or Err((what, growth per cycle in bytes))
pub fn judge(c: &Case, cycles: usize) -> Result<(), (String, isize)> {
    crate::inst::set_fuel_override(Some(20_000));
    let prog = Rc::new(Prog::from_json(&c.prog_name, &c.json));
    let su = setup();
    let mut marks: Vec<isize> = Vec::with_capacity(cycles + 1);
    match c.kind {
        "create-play-drop/first-choices" | "create-play-drop/last-choices" | "create-play-drop/flows+save+load" => {
            for _ in 0..cycles {
                {
                    let Ok(mut inst) = Inst::new(&prog, &su) else { return Ok(()) };
                    match c.kind {
                        "create-play-drop/first-choices" => play(&mut inst, false, 40),
                        "create-play-drop/last-choices" => play(&mut inst, true, 40),
                        _ => {
                            play(&mut inst, false, 3);
                            inst.apply(&Op::SwitchFlow("f1".into()));
                            play(&mut inst, true, 3);
                            inst.apply(&Op::LoadInto);
                            inst.apply(&Op::SwitchDefault);
                            play(&mut inst, false, 3);
                            inst.apply(&Op::LoadFresh);
                            play(&mut inst, true, 20);
                        }
                    }
                }
                marks.push(live());
            }
        }
        _ => {
            let Ok(mut inst) = Inst::new(&prog, &su) else { return Ok(()) };
            for _ in 0..cycles {
                play(&mut inst, false, 30);
                if c.kind == "one-instance/play+reset" {
                    inst.apply(&Op::Reset);
                } else {
                    inst.apply(&Op::LoadInto);
                    inst.apply(&Op::LoadInto);
                    inst.apply(&Op::Reset);
                }
                marks.push(live());
            }
        }
    }
    // cycle 1 absorbs lazily initialised state; afterwards the heap must be flat
    let base = marks[0];
    for (k, m) in marks.iter().enumerate().skip(1) {
        if *m != base {
            let per = (marks[marks.len() - 1] - base) / (marks.len() as isize - 1);
            return Err((format!("live bytes after cycle 1: {base}, after cycle {}: {m} ({} cycles: {:?})", k + 1, marks.len(), marks), per));
        }
    }
    Ok(())
}

pub fn worker(tier: Tier, from: usize, to: usize) -> i32 {
    let cs = cases(tier);
    let cycles = if tier == Tier::Quick { 3 } else { 5 };
    // warm up everything that is lazily initialised in this process
    if let Some(c) = cs.first() {
        let _ = judge(c, 2);
    }
    for i in from..to.min(cs.len()) {
        let payload = match judge(&cs[i], cycles) {
            Ok(()) => "ok".to_string(),
            Err((what, per)) => format!("leak\u{1}{per}\u{1}{what}"),
        };
        eproc::emit(i, &payload);
    }
    println!("DONE");
    0
}

pub fn run(tier: Tier) -> i32 {
    let started = std::time::Instant::now();
    let cs = cases(tier);
    let n = cs.len();
    let secs = if tier == Tier::Quick { 50 } else { 1800 };
    let cfg = ProcCfg {
        bin: "/verif/target/release/vrun",
        args: vec!["c18-worker".into(), "--tier".into(), tier.name().into()],
        env: vec![("VERIF_THREADS".into(), "1".into())],
        n,
        shards: crate::report::n_threads(),
        per_case: Duration::from_secs(30),
        deadline: started + Duration::from_secs(secs),
    };
    let (res, done) = eproc::run_sharded(&cfg);
    let mut stats = Stats::default();
    for (i, payload) in &res.lines {
        stats.inc("cases");
        stats.see("programs", &cs[*i].prog_name);
        if payload == "ok" {
            stats.inc("flat");
            continue;
        }
        let f: Vec<&str> = payload.split('\u{1}').collect();
        let c = &cs[*i];
        let fam = c.prog_name.split(':').next().unwrap_or("");
        let which = if fam == "shape" { c.prog_name.clone() } else { fam.to_string() };
        stats.violation(Violation {
            property: ID.into(),
            class: format!("{ID}/heap-grows/{}/{which}", c.kind),
            what: format!("{} [{}]: the heap grows by about {} bytes per cycle: {}", c.prog_name, c.kind, f.get(1).unwrap_or(&"?"), f.get(2).unwrap_or(&"")),
            artefact: json!({"check": "c18", "program": c.prog_name, "kind": c.kind, "json": c.json, "tier": tier.name(), "index": i}),
        });
    }
    for (i, how) in res.crashes.iter().chain(res.hangs.iter().map(|i| (*i, "hang".to_string())).collect::<Vec<_>>().iter()) {
        stats.notes.push(format!("worker died/hung on case {} {} [{}]: {how}", i, cs[*i].prog_name, cs[*i].kind));
    }
    stats.sample(json!({"program": cs[0].prog_name, "kind": cs[0].kind}));
    stats.sample(json!({"kinds": KINDS}));
    let exhaustive = done >= n;
    let extra = vec![
        ("evaluations", json!(stats.get("cases"))),
        ("distinct_nontrivial", json!(stats.n_distinct("programs"))),
        ("rule", json!("case = (program, history kind) executed as N cycles under a counting global allocator in a single-threaded process; non-trivial/distinct = distinct programs that loaded and played")),
        ("exhaustive", json!(exhaustive)),
        ("bounds", json!({"cases": n, "cases_done": done, "cycles": if tier == Tier::Quick { 3 } else { 5 }, "history_kinds": KINDS, "divert_shapes": SHAPES.len()})),
        ("caps_hit", json!(if exhaustive { vec![] } else { vec![format!("wall cap {secs}s: {done}/{n} cases")] })),
    ];
    finish(
        ID,
        tier,
        "exploration",
        &stats,
        extra,
        vec!["live bytes are counted by a #[global_allocator] wrapper around the system allocator in a single-threaded worker; the first cycle absorbs lazily initialised process state (the harness's own per-instance objects are dropped with the instance)".into()],
        started,
    )
}

pub fn replay(art: &Value) -> String {
    let c = Case { prog_name: art["program"].as_str().unwrap_or("").to_string(), json: art["json"].as_str().unwrap_or("").to_string(), kind: KINDS.iter().find(|k| art["kind"] == **k).copied().unwrap_or(KINDS[0]) };
    let _ = judge(&c, 2);
    match judge(&c, 4) {
        Ok(()) => "flat".into(),
        Err((_what, per)) => format!("grows ~{per} bytes/cycle"),
    }
}
