//! C19 — every piece of story content is addressable by its own path.
//! E-enum over the object graph (hook H4 exposes the types; all logic is here): for every runtime
//! object of every corpus story (reference JSON and this compiler's output) and of the compiled
//! pool: (1) the reported path resolves from the root to that very object, not approximately;
//! (2) path -> text -> parse gives an equal path with the same relativity; (3) equal paths hash
//! equally; (4) for every ordered pair of objects within tree distance D: the relative path from a
//! to b resolves from a to b, its text form parses back to an equal, equally hashing path, and
//! the compact path string resolves to b; (5) pointer_at_path(container path + index) is
//! (container, index) for every content position.
use super::{Tier, finish};
use crate::{
    inst::guarded,
    pool,
    prog::{CompileOutcome, Prog},
    report::{RunCtl, Stats, Violation, par_cases},
};
use bladeink::verif::audit::{self, Container, Object, Path, RTObject};
use serde_json::{Value, json};
use std::{
    collections::hash_map::DefaultHasher,
    hash::{Hash, Hasher},
    rc::Rc,
};

pub const ID: &str = "C19";

fn hash_of(p: &Path) -> u64 {
    let mut h = DefaultHasher::new();
    p.hash(&mut h);
    h.finish()
}

fn addr(o: &Rc<dyn RTObject>) -> *const () {
    Rc::as_ptr(o) as *const ()
}

struct Node {
    obj: Rc<dyn RTObject>,
    parent: Option<usize>,
    depth: usize,
}

fn collect(c: &Rc<Container>, parent: Option<usize>, depth: usize, out: &mut Vec<Node>) {
    let me = out.len();
    let as_obj: Rc<dyn RTObject> = c.clone();
    out.push(Node { obj: as_obj, parent, depth });
    for o in c.content.iter() {
        if let Ok(sub) = o.clone().into_any().downcast::<Container>() {
            collect(&sub, Some(me), depth + 1, out);
        } else {
            out.push(Node { obj: o.clone(), parent: Some(me), depth: depth + 1 });
        }
    }
    // named-only content
    let mut names: Vec<&String> = c.named_content.keys().collect();
    names.sort();
    for n in names {
        let sub = &c.named_content[n];
        let so: Rc<dyn RTObject> = sub.clone();
        if !c.content.iter().any(|e| addr(e) == addr(&so)) {
            collect(sub, Some(me), depth + 1, out);
        }
    }
}

fn tree_distance(nodes: &[Node], a: usize, b: usize) -> usize {
    let (mut x, mut y) = (a, b);
    let mut d = 0;
    while x != y {
        if nodes[x].depth >= nodes[y].depth {
            x = nodes[x].parent.unwrap_or(y);
        } else {
            y = nodes[y].parent.unwrap_or(x);
        }
        d += 1;
        if d > 64 {
            break;
        }
    }
    d
}

pub fn check_story(name: &str, json_text: &str, dist: usize, stats: &mut Stats) {
    let Ok(Ok((_v, root, _l))) = guarded(|| audit::load_default(json_text)) else {
        stats.inc("unloadable");
        return;
    };
    let mut nodes = vec![];
    collect(&root, None, 0, &mut nodes);
    stats.add("objects", nodes.len() as u64);
    let bad = |stats: &mut Stats, class: &str, what: String, detail: Value| {
        stats.violation(Violation {
            property: ID.into(),
            class: format!("{ID}/{class}"),
            what: format!("{what} (story {name})"),
            artefact: json!({"check": "c19", "story": name, "json": json_text, "detail": detail}),
        });
    };
    // (1)-(3) per object
    let paths: Vec<Path> = nodes.iter().map(|n| Object::get_path(n.obj.as_ref())).collect();
    for (i, n) in nodes.iter().enumerate() {
        let p = &paths[i];
        let text = p.to_string();
        stats.inc("objects_checked");
        if n.parent.is_some() || !text.is_empty() {
            let r = root.content_at_path(p, 0, -1);
            if r.approximate || addr(&r.obj) != addr(&n.obj) {
                bad(stats, "own-path-does-not-resolve", format!("the path {text:?} reported for an object does not resolve back to it (approximate={})", r.approximate), json!({"path": text}));
                return;
            }
        }
        let p2 = Path::new_with_components_string(Some(&text));
        if p2 != *p || p2.is_relative() != p.is_relative() {
            bad(stats, "text-roundtrip/absolute", format!("path {text:?} parsed back from its text is not equal to the original"), json!({"path": text, "reparsed": p2.to_string()}));
            return;
        }
        if hash_of(&p2) != hash_of(p) {
            bad(stats, "hash/absolute", format!("path {text:?} and its re-parsed equal have different hashes"), json!({"path": text}));
            return;
        }
        // (5) pointer_at_path for every content position of a container
        if let Ok(c) = n.obj.clone().into_any().downcast::<Container>() {
            for idx in 0..c.content.len() {
                let pp = p.path_by_appending_component(audit::Component::new_i(idx));
                match audit::pointer_at_path(&root, &pp) {
                    Ok(ptr) => {
                        let same = ptr.container.as_ref().map(|x| Rc::ptr_eq(x, &c)).unwrap_or(false) && ptr.index == idx as i32;
                        if !same {
                            bad(stats, "pointer-at-path", format!("pointer_at_path({:?}) is not (that container, {idx})", pp.to_string()), json!({"path": pp.to_string()}));
                            return;
                        }
                        stats.inc("pointers_checked");
                    }
                    Err(e) => {
                        bad(stats, "pointer-at-path", format!("pointer_at_path({:?}) failed: {e}", pp.to_string()), json!({"path": pp.to_string()}));
                        return;
                    }
                }
            }
        }
    }
    // (4) pairs
    let n = nodes.len();
    let cap = if dist <= 4 { 1500 } else { 6000 }; // objects per story taking part in the pair check (stories are walked fully above)
    let m = n.min(cap);
    for a in 0..m {
        // the relative-path functions read the cached path of `a`
        let _ = Object::get_path(nodes[a].obj.as_ref());
        for b in 0..m {
            if a == b || tree_distance(&nodes, a, b) > dist {
                continue;
            }
            stats.inc("pairs_checked");
            let pb = &paths[b];
            let rel = Object::convert_path_to_relative(&nodes[a].obj, pb);
            let r = Object::resolve_path(nodes[a].obj.clone(), &rel);
            if r.approximate || addr(&r.obj) != addr(&nodes[b].obj) {
                // resolve_path of a relative path from a non-container starts at its parent with
                // the first component dropped: only report when that convention is respected
                bad(stats, "relative-path-does-not-resolve", format!("the relative path {:?} from {:?} to {:?} does not resolve to the target", rel.to_string(), paths[a].to_string(), pb.to_string()), json!({"from": paths[a].to_string(), "to": pb.to_string(), "relative": rel.to_string()}));
                return;
            }
            if rel.is_relative() {
                let text = rel.to_string();
                let rel2 = Path::new_with_components_string(Some(&text));
                if rel2 != rel || !rel2.is_relative() {
                    bad(stats, "text-roundtrip/relative", format!("relative path {text:?} parsed back from its text is not an equal relative path"), json!({"relative": text, "reparsed": rel2.to_string(), "reparsed_is_relative": rel2.is_relative()}));
                    return;
                }
                if hash_of(&rel2) != hash_of(&rel) {
                    bad(stats, "hash/relative", format!("relative path {text:?}: the constructed path and the equal path parsed from its text hash differently (the parsed one renders as {:?})", rel2.to_string()), json!({"relative": text, "reparsed_text": rel2.to_string()}));
                    return;
                }
                if rel2.to_string() != text {
                    bad(stats, "text-roundtrip/relative-text", format!("relative path {text:?} re-renders as {:?} after parsing", rel2.to_string()), json!({"relative": text, "reparsed_text": rel2.to_string()}));
                    return;
                }
            }
            let compact = Object::compact_path_string(nodes[a].obj.clone(), pb);
            let cp = Path::new_with_components_string(Some(&compact));
            let r2 = Object::resolve_path(nodes[a].obj.clone(), &cp);
            if r2.approximate || addr(&r2.obj) != addr(&nodes[b].obj) {
                bad(stats, "compact-path-does-not-resolve", format!("the compact path string {compact:?} from {:?} to {:?} does not resolve to the target", paths[a].to_string(), pb.to_string()), json!({"from": paths[a].to_string(), "to": pb.to_string(), "compact": compact}));
                return;
            }
        }
    }
    stats.inc("stories");
    stats.see("stories", name);
}

pub fn stories(tier: Tier) -> Vec<(String, String)> {
    let mut v = vec![];
    let max = if tier == Tier::Quick { 60_000 } else { usize::MAX };
    for (name, src, js) in pool::corpus_pairs() {
        if let Ok(t) = std::fs::read_to_string(&js) {
            let t = t.trim_start_matches('\u{feff}').to_string();
            if t.len() <= max {
                v.push((format!("ref:{name}"), t));
            }
        }
        if let Ok(s) = std::fs::read_to_string(&src)
            && s.len() <= max
            && !s.contains("INCLUDE")
            && let CompileOutcome::Ok(p) = Prog::from_source(&name, &s)
        {
            v.push((format!("rust:{name}"), p.json.clone()));
        }
    }
    for (n, s) in pool::base_sources() {
        if let CompileOutcome::Ok(p) = Prog::from_source(n, s) {
            v.push((format!("pool:{n}"), p.json.clone()));
        }
    }
    let (k, a) = if tier == Tier::Quick { (2, 8) } else { (2, 16) };
    for i in 0..pool::seg_count(k, a) {
        let (n, s) = pool::seg_nth(k, a, i);
        if let CompileOutcome::Ok(p) = Prog::from_source(&n, &s) {
            v.push((format!("seg:{n}"), p.json.clone()));
        }
    }
    v
}

/// every position-bearing field of a save (call-stack elements, choices, thread forks), in document order
fn positions(v: &Value, at: &str, out: &mut Vec<String>) {
    match v {
        Value::Object(m) => {
            if m.contains_key("idx") || m.contains_key("cPath") {
                out.push(format!("{at}: cPath={} idx={}", m.get("cPath").unwrap_or(&Value::Null), m.get("idx").unwrap_or(&Value::Null)));
            }
            for k in ["previousContentObject", "originalChoicePath", "targetPath", "currentDivertTarget"] {
                if let Some(x) = m.get(k) {
                    out.push(format!("{at}.{k}={x}"));
                }
            }
            for (k, x) in m {
                positions(x, &format!("{at}.{k}"), out);
            }
        }
        Value::Array(a) => {
            for (i, x) in a.iter().enumerate() {
                positions(x, &format!("{at}[{i}]"), out);
            }
        }
        _ => {}
    }
}

/// (6) the positions the engine writes into a save denote the same positions when read back: at
/// every node of the history tree (start state, parked flows, live threads, choice points) the
/// save is loaded into a fresh story and saved again; every cPath/idx and path field must come back
pub fn check_save_positions(prog: &Rc<Prog>, depth: usize, stats: &mut Stats) {
    use crate::inst::{Op, Setup};
    let setup = Setup { bind_externals: Some(true), allow_fallbacks: true, handler: false, observers: vec![], seed: None };
    let sigma = super::common::sigma_hist_flows(prog);
    crate::hx::explore(prog, &setup, depth, &sigma, false, stats, &mut |h, _r, obs, inst, st| {
        if obs["errors"].as_array().map(|a| !a.is_empty()).unwrap_or(false) {
            return false;
        }
        let s1 = inst.apply(&Op::Save);
        let Some(j1) = s1.strip_prefix("ok:") else { return true };
        let r = inst.apply(&Op::LoadFresh);
        if r != "ok" {
            return true; // C02 judges refused loads
        }
        let s2 = inst.apply(&Op::Save);
        let Some(j2) = s2.strip_prefix("ok:") else { return true };
        let (mut p1, mut p2) = (vec![], vec![]);
        if let (Ok(a), Ok(b)) = (serde_json::from_str::<Value>(j1), serde_json::from_str::<Value>(j2)) {
            positions(&a, "", &mut p1);
            positions(&b, "", &mut p2);
        }
        st.add("save_positions_checked", p1.len() as u64);
        st.inc("saves_round_tripped");
        if p1 != p2 {
            let k = (0..p1.len().max(p2.len())).find(|&k| p1.get(k) != p2.get(k)).unwrap_or(0);
            let root = p1.get(k).map(|s| s.contains("cPath=\"\"")).unwrap_or(false);
            st.violation(Violation {
                property: ID.into(),
                class: format!("{ID}/save-position/{}", if root { "root-container" } else { "other" }),
                what: format!("a position written into a save does not come back after load + save: wrote {:?}, read back {:?} (program {}, history {:?})", p1.get(k), p2.get(k), prog.name, h.iter().map(|o| o.kind()).collect::<Vec<_>>()),
                artefact: json!({"check": "c19", "mode": "save-positions", "source": prog.source, "program": prog.name, "history": crate::inst::hist_to_json(h)}),
            });
            return false;
        }
        true
    });
}

pub fn run(tier: Tier) -> i32 {
    let started = std::time::Instant::now();
    let (dist, secs) = match tier {
        Tier::Quick => (4, 50),
        Tier::Thorough => (6, 1800),
    };
    let st = stories(tier);
    let ctl = RunCtl::new(secs);
    let (mut stats, done) = par_cases(st.len(), &ctl, |i, s| {
        check_story(&st[i].0, &st[i].1, dist, s);
    });
    // (6) save positions over the base pool's history trees
    let (progs, _) = pool::compile_all(&pool::base_sources().iter().map(|(n, s)| (n.to_string(), s.to_string())).collect::<Vec<_>>());
    let srcs: Vec<(String, String)> = progs.iter().map(|p| (p.name.clone(), p.source.clone().unwrap_or_default())).collect();
    drop(progs);
    let depth = if tier == Tier::Quick { 4 } else { 6 };
    let (s6, _) = par_cases(srcs.len(), &ctl, |i, s| {
        if let CompileOutcome::Ok(p) = Prog::from_source(&srcs[i].0, &srcs[i].1) {
            check_save_positions(&p, depth, s);
        }
    });
    stats.merge(s6);
    stats.sample(json!({"story": st[0].0}));
    stats.sample(json!({"stories": st.len(), "objects": stats.get("objects"), "pairs": stats.get("pairs_checked")}));
    let exhaustive = done == st.len();
    let extra = vec![
        ("evaluations", json!(stats.get("objects_checked") + stats.get("pairs_checked") + stats.get("pointers_checked"))),
        ("distinct_nontrivial", json!(stats.get("objects_checked"))),
        ("rule", json!("evaluation = one object (own path, text round trip, hash, content positions) or one ordered pair of objects within the distance bound (relative path, compact path); non-trivial/distinct = distinct runtime objects walked")),
        ("exhaustive", json!(exhaustive)),
        ("bounds", json!({"stories": st.len(), "stories_done": done, "pair_distance": dist, "pair_objects_per_story_cap": if dist <= 4 { 1500 } else { 6000 }})),
        ("caps_hit", json!(if exhaustive { vec![] } else { vec![format!("wall cap {secs}s: {done}/{} stories", st.len())] })),
    ];
    finish(
        ID,
        tier,
        "exploration",
        &stats,
        extra,
        vec!["hook H4 only re-exports the crate's path/container types; the walk and all checks are harness code".into(), "pair checks take the first 1500 (quick) / 6000 (thorough) objects of a story in walk order (all objects get the per-object checks)".into()],
        started,
    )
}

pub fn replay(art: &Value) -> String {
    let mut st = Stats::default();
    check_story(art["story"].as_str().unwrap_or("replay"), art["json"].as_str().unwrap_or(""), 5, &mut st);
    match st.violations.first() {
        Some(v) => format!("{}: {}", v.class, v.what),
        None => "no violation".into(),
    }
}
