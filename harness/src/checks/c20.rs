//! C20 — the command-line tool speaks its protocol and matches the library.
//! E-proc: the real `rinklecate` binary (rebuilt from /repo) is run on generated stories whose text,
//! tags and choice text contain every hostile string of the alphabet x every scripted stdin
//! sequence up to the length bound x {plain, -j} (x -k). JSON mode: stdout must be a stream of
//! well-formed JSON objects of the documented kinds (strict parser), and the sequence of texts,
//! tags, choices and issues must equal what the library produces when the harness maps the same
//! script to library calls; plain mode: stdout must equal the rendering of the same library
//! events. Compile mode: the written file equals the library's compiled output byte for byte, a
//! compile error exits non-zero and reports the compiler's message (file and line included).
use super::{Tier, c14, finish};
use crate::{
    inst::guarded,
    pool,
    prog::{CompileOutcome, Prog},
    report::{RunCtl, Stats, Violation, par_cases},
};
use bladeink::story::{
    Story,
    errors::{ErrorHandler, ErrorType},
};
use bladeink_compiler::{Compiler, CompilerError, CompilerOptions};
use serde_json::{Value, json};
use std::{cell::RefCell, io::Write, process::Stdio, rc::Rc};

pub const ID: &str = "C20";
const CLI: &str = "/verif/target-cli/release/rinklecate";

const PLAY_SRC: &str = "VAR v = 0\nFirst line. # t1\nSecond <>\nglued. # t2 # t3\n* alpha [bracket] end # ctag\n    Alpha body.\n    -> knot\n* beta\n    Beta body.\n    * * deeper\n        Deep.\n    - - Joined.\n+ sticky\n    Sticky body {v}.\n    ~ v = v + 1\n    -> knot\n=== knot ===\nIn knot {v}.\n+ again -> knot\n* out -> END\n";

const INPUTS: &[&str] = &["1", "2", "0", "99", "-> knot", "-> nowhere", "-> \"q\\\"", "help", "", "quit", "3", "-> knot extra", "HELP", " 1 "];

#[derive(Debug, Clone, PartialEq)]
enum Ev {
    Text(String),
    Tags(Vec<String>),
    Issues(Vec<String>),
    Choices(Vec<(String, Vec<String>)>),
    NeedInput,
    Cmd,
    End,
    Close,
}

struct Collect {
    errors: Vec<String>,
    warnings: Vec<String>,
}
impl ErrorHandler for Collect {
    fn error(&mut self, m: &str, t: ErrorType) {
        if t == ErrorType::Error { self.errors.push(m.to_string()) } else { self.warnings.push(m.to_string()) }
    }
}

/// the library driven by the same script, with the input meanings the tool documents
fn library_events(story_json: &str, script: &[String], keep_open: bool) -> Result<(Vec<Ev>, bool), String> {
    let mut story = Story::new(story_json).map_err(|e| e.to_string())?;
    let h = Rc::new(RefCell::new(Collect { errors: vec![], warnings: vec![] }));
    story.set_error_handler(h.clone());
    story.set_allow_external_function_fallbacks(true);
    let mut ev = vec![];
    let mut inputs = script.iter();
    let mut failed = false;
    'outer: loop {
        while story.can_continue() {
            let text = match story.cont() {
                Ok(t) => t,
                Err(_) => {
                    failed = true;
                    break 'outer;
                }
            };
            let tags = story.get_current_tags().map_err(|e| e.to_string())?;
            ev.push(Ev::Text(text));
            if !tags.is_empty() {
                ev.push(Ev::Tags(tags));
            }
            let mut hh = h.borrow_mut();
            if !hh.errors.is_empty() || !hh.warnings.is_empty() {
                let all: Vec<String> = hh.warnings.iter().chain(hh.errors.iter()).cloned().collect();
                ev.push(Ev::Issues(all));
                hh.errors.clear();
                hh.warnings.clear();
            }
        }
        let choices = story.get_current_choices();
        if choices.is_empty() {
            if keep_open {
                ev.push(Ev::End);
            }
            break;
        }
        ev.push(Ev::Choices(choices.iter().map(|c| (c.text.clone(), c.tags.clone())).collect()));
        loop {
            ev.push(Ev::NeedInput);
            let Some(raw) = inputs.next() else {
                ev.push(Ev::Close);
                break 'outer;
            };
            let t = raw.trim();
            if t.is_empty() {
                continue;
            }
            let lower = t.to_lowercase();
            if lower == "quit" || lower == "exit" {
                break 'outer;
            }
            if lower == "help" {
                ev.push(Ev::Cmd);
                continue;
            }
            let words: Vec<&str> = t.split_whitespace().collect();
            if words.len() == 2 && words[0] == "->" {
                if let Err(e) = story.choose_path_string(words[1], true, None) {
                    ev.push(Ev::Issues(vec![format!("Error diverting to '{}': {}", words[1], e)]));
                }
                break;
            }
            if let Ok(n) = t.parse::<usize>()
                && n >= 1
            {
                if n - 1 >= choices.len() {
                    continue;
                }
                if story.choose_choice_index(n - 1).is_err() {
                    failed = true;
                    break 'outer;
                }
                break;
            }
            // unknown input: ignored
        }
    }
    Ok((ev, failed))
}

const KINDS: &[&str] = &["text", "tags", "choices", "needInput", "issues", "cmdOutput", "end", "close", "compile-success", "export-complete", "stats"];

/// strict parse of the tool's JSON-mode stdout into events
fn parse_json_stream(out: &str) -> Result<Vec<Ev>, String> {
    let mut ev = vec![];
    let de = serde_json::Deserializer::from_str(out).into_iter::<Value>();
    for v in de {
        let v = v.map_err(|e| format!("stdout is not a stream of JSON values: {e}"))?;
        let o = v.as_object().ok_or_else(|| format!("a value on stdout is not an object: {v}"))?;
        if o.len() != 1 {
            return Err(format!("an object on stdout has {} keys: {v}", o.len()));
        }
        let (k, val) = o.iter().next().unwrap();
        if !KINDS.contains(&k.as_str()) {
            return Err(format!("undocumented message kind {k:?}"));
        }
        let strs = |x: &Value| -> Result<Vec<String>, String> {
            x.as_array().ok_or("expected an array")?.iter().map(|s| s.as_str().map(|s| s.to_string()).ok_or_else(|| "expected strings".to_string())).collect()
        };
        match k.as_str() {
            "text" => ev.push(Ev::Text(val.as_str().ok_or("text is not a string")?.to_string())),
            "tags" => ev.push(Ev::Tags(strs(val)?)),
            "issues" => ev.push(Ev::Issues(strs(val)?)),
            "choices" => {
                let mut cs = vec![];
                for c in val.as_array().ok_or("choices is not an array")? {
                    let t = c["text"].as_str().ok_or("choice without text")?.to_string();
                    let tags = if c.get("tags").is_some() { strs(&c["tags"])? } else { vec![] };
                    if let Some(n) = c.get("tag_count")
                        && n.as_u64() != Some(tags.len() as u64)
                    {
                        return Err("tag_count does not match tags".into());
                    }
                    cs.push((t, tags));
                }
                ev.push(Ev::Choices(cs));
            }
            "needInput" => ev.push(Ev::NeedInput),
            "cmdOutput" => ev.push(Ev::Cmd),
            "end" => ev.push(Ev::End),
            "close" => ev.push(Ev::Close),
            _ => {}
        }
    }
    Ok(ev)
}

fn render_plain(ev: &[Ev]) -> String {
    let mut s = String::new();
    for e in ev {
        match e {
            Ev::Text(t) => s.push_str(t),
            Ev::Tags(t) => s.push_str(&format!("# tags: {}\n", t.join(", "))),
            Ev::Issues(_) => {} // stderr in plain mode
            Ev::Choices(cs) => {
                s.push('\n');
                for (i, (t, tags)) in cs.iter().enumerate() {
                    s.push_str(&format!("{}: {}\n", i + 1, t));
                    if !tags.is_empty() {
                        s.push_str(&format!("# tags: {}\n", tags.join(", ")));
                    }
                }
            }
            Ev::NeedInput => s.push_str("?> "),
            Ev::Cmd => s.push_str("Type a choice number or a divert (e.g. '-> myKnot'), 'quit' to exit\n"),
            Ev::End => s.push_str("--- End of story ---\n"),
            Ev::Close => s.push_str("<User input stream closed.>\n"),
        }
    }
    s
}

fn run_cli(args: &[&str], stdin: &str, cwd: &std::path::Path) -> Result<(String, String, i32), String> {
    let mut ch = std::process::Command::new(CLI)
        .args(args)
        .current_dir(cwd)
        .stdin(Stdio::piped())
        .stdout(Stdio::piped())
        .stderr(Stdio::piped())
        .spawn()
        .map_err(|e| format!("cannot run {CLI}: {e}"))?;
    {
        let mut si = ch.stdin.take().unwrap();
        let _ = si.write_all(stdin.as_bytes());
    }
    let o = ch.wait_with_output().map_err(|e| e.to_string())?;
    Ok((String::from_utf8_lossy(&o.stdout).to_string(), String::from_utf8_lossy(&o.stderr).to_string(), o.status.code().unwrap_or(-1)))
}

#[derive(Clone)]
struct PlayCase {
    story: usize,
    script: Vec<String>,
    json_mode: bool,
    keep_open: bool,
}

struct StoryDoc {
    id: String,
    feature: String,
    json: String,
}

/// second play template: choices that carry tags and text that needs escaping, names with capitals
const PLAY_SRC2: &str = "Line. # t1\n* choice \"q\" \\\\ back # ctag [br # btag] end # etag\n    Body.\n+ plain # ptag\n    P.\n- done\n-> WineCellar\n=== WineCellar ===\nCellar.\n-> Rack\n= Rack\nRack text.\n+ [look \"at\" it # ltag] -> Rack\n* [leave] -> END\n";
const INPUTS2: &[&str] = &["1", "2", "-> WineCellar", "-> WineCellar.Rack", "-> winecellar", "-> WINECELLAR.rack", "quit"];

fn scripts(len: usize) -> Vec<Vec<String>> {
    scripts_over(INPUTS, len)
}

fn scripts_over(inputs: &[&str], len: usize) -> Vec<Vec<String>> {
    let mut all: Vec<Vec<String>> = vec![vec![]];
    let mut layer: Vec<Vec<String>> = vec![vec![]];
    for _ in 0..len {
        let mut next = vec![];
        for s in &layer {
            for i in inputs {
                let mut t = s.clone();
                t.push(i.to_string());
                next.push(t);
            }
        }
        all.extend(next.iter().cloned());
        layer = next;
    }
    all
}

fn compile_cases(tier: Tier) -> Vec<(String, String, String)> {
    // (name, file name, source)
    let mut v = vec![];
    for (n, p) in pool::corpus_sources() {
        if let Ok(s) = std::fs::read_to_string(&p)
            && !s.contains("INCLUDE")
            && (tier == Tier::Thorough || s.len() < 2500)
        {
            v.push((format!("corpus:{n}"), "story.ink".to_string(), s));
        }
    }
    for (n, s) in [
        ("err-unknown-divert", "Line one.\nLine two.\n-> nowhere\n"),
        ("err-first-line", "-> nowhere\n"),
        ("err-unbalanced", "Line.\n{a|b\n"),
        ("err-function-divert", "-> f\n=== function f ===\n~ return 1\n"),
        ("err-unknown-function", "~ nofunc()\n"),
        ("err-var", "VAR = 3\n"),
        ("err-quote-in-message", "-> \"q\\\"\n"),
        ("err-nonascii-name", "-> kn\u{e9}\u{1F600}\n"),
        ("ok-empty", ""),
        ("ok-hostile-text", "Tab\there \\\\ quote\" e\u{e9} \u{1F600}.\n"),
    ] {
        v.push((n.to_string(), "weird name \u{e9}.ink".to_string(), s.to_string()));
        v.push((n.to_string(), "story.ink".to_string(), s.to_string()));
    }
    v
}

pub fn run(tier: Tier) -> i32 {
    let started = std::time::Instant::now();
    if !std::path::Path::new(CLI).exists() {
        println!("MACHINERY-ERROR property={ID} {CLI} not built (run through ./check)");
        return 2;
    }
    let (slen, secs) = match tier {
        Tier::Quick => (2, 55),
        Tier::Thorough => (3, 2400),
    };
    // stories: the play template compiled by the repository's compiler, and hostile documents
    let mut docs: Vec<StoryDoc> = vec![];
    let CompileOutcome::Ok(tp) = Prog::from_source("play-template", PLAY_SRC) else {
        println!("MACHINERY-ERROR property={ID} the play template does not compile");
        return 2;
    };
    docs.push(StoryDoc { id: "play-template".into(), feature: "template".into(), json: tp.json.clone() });
    let mut hostile: Vec<c14::Doc> = c14::documents(Tier::Quick).into_iter().filter(|d| d.id.starts_with("inject:") && d.id.ends_with("/plain") || d.id.starts_with("inject:tag")).collect();
    if tier == Tier::Quick {
        // single hostile characters at every position + all pairs at the first three positions
        hostile.retain(|d| {
            let si: usize = d.id.split(":str").nth(1).and_then(|s| s.split('/').next()).and_then(|s| s.parse().ok()).unwrap_or(0);
            let pi: usize = d.id.split(":pos").nth(1).and_then(|s| s.split(':').next()).and_then(|s| s.parse().ok()).unwrap_or(0);
            si < c14::HOSTILE_CHARS.len() || pi < 3
        });
    }
    let second = docs.len();
    if let CompileOutcome::Ok(tp2) = Prog::from_source("play-template-2", PLAY_SRC2) {
        docs.push(StoryDoc { id: "play-template-2".into(), feature: "template-tagged-choices-capital-names".into(), json: tp2.json.clone() });
    }
    for d in hostile {
        docs.push(StoryDoc { id: d.id.clone(), feature: d.feature.clone(), json: d.text.clone() });
    }
    let all_scripts = scripts(slen);
    let all_scripts2 = scripts_over(INPUTS2, slen.max(3));
    // hostile documents get the scripts that reach every text position (line, tag, choice text,
    // chosen text, knot text); the full script alphabet runs on the template
    let short_scripts: Vec<Vec<String>> = if tier == Tier::Quick { vec![vec!["1".into(), "1".into()], vec!["-> k".into()]] } else { vec![vec![], vec!["1".into()], vec!["1".into(), "1".into()], vec!["-> k".into(), "1".into()], vec!["2".into()]] };
    let mut cases: Vec<PlayCase> = vec![];
    for (si, _d) in docs.iter().enumerate() {
        let ss = if si == 0 {
            &all_scripts
        } else if si == second && docs[si].id == "play-template-2" {
            &all_scripts2
        } else {
            &short_scripts
        };
        for s in ss {
            for jm in [true, false] {
                cases.push(PlayCase { story: si, script: s.clone(), json_mode: jm, keep_open: false });
            }
            if si == 0 && s.len() <= 1 {
                cases.push(PlayCase { story: si, script: s.clone(), json_mode: true, keep_open: true });
                cases.push(PlayCase { story: si, script: s.clone(), json_mode: false, keep_open: true });
            }
        }
    }
    let ccases = compile_cases(tier);
    let n_play = cases.len();
    let total = n_play + ccases.len() * 2;
    let ctl = RunCtl::new(secs);
    let base_dir = std::path::PathBuf::from("/verif/out/c20");
    let _ = std::fs::remove_dir_all(&base_dir);
    let (mut stats, done) = par_cases(total, &ctl, |i, st| {
        let dir = base_dir.join(format!("w{i}"));
        std::fs::create_dir_all(&dir).ok();
        if i < n_play {
            let c = &cases[i];
            let d = &docs[c.story];
            let file = dir.join("story.ink.json");
            std::fs::write(&file, &d.json).ok();
            let stdin: String = c.script.iter().map(|l| format!("{l}\n")).collect();
            let mut args = vec![];
            if c.json_mode {
                args.push("-j");
            }
            if c.keep_open {
                args.push("-k");
            }
            args.push("story.ink.json");
            st.inc("cli_runs");
            let mk = |class: String, what: String, extra: Value| Violation {
                property: ID.into(),
                class: format!("{ID}/{class}"),
                what: format!("{what} [{} script {:?} {}]", d.id, c.script, if c.json_mode { "-j" } else { "plain" }),
                artefact: json!({"check": "c20", "story_json": d.json, "script": c.script, "json_mode": c.json_mode, "keep_open": c.keep_open, "detail": extra}),
            };
            match (run_cli(&args, &stdin, &dir), guarded(|| library_events(&d.json, &c.script, c.keep_open))) {
                (Ok((out, err, code)), Ok(Ok((exp, failed)))) => {
                    st.see("outputs", &out);
                    if c.json_mode {
                        match parse_json_stream(&out) {
                            Err(e) => {
                                // cause: hostile typed input, or the story's hostile text
                                let cause = if c.script.iter().any(|l| l.contains('"') || l.contains('\\')) { "typed-input".to_string() } else { d.feature.clone() };
                                st.violation(mk(format!("json-mode/malformed-output/{cause}"), e, json!({"stdout": out})))
                            }
                            Ok(got) => {
                                if got != exp && !failed {
                                    let k = got.iter().zip(exp.iter()).position(|(a, b)| a != b).unwrap_or(got.len().min(exp.len()));
                                    let kind = match (got.get(k), exp.get(k)) {
                                        (Some(Ev::Issues(_)), _) | (_, Some(Ev::Issues(_))) => "issues",
                                        (Some(Ev::Choices(_)), _) | (_, Some(Ev::Choices(_))) => "choices",
                                        (Some(Ev::Text(_)), _) | (_, Some(Ev::Text(_))) => "text",
                                        (Some(Ev::Tags(_)), _) | (_, Some(Ev::Tags(_))) => "tags",
                                        _ => "protocol",
                                    };
                                    st.violation(mk(format!("json-mode/differs-from-library/{kind}/{}", d.feature), format!("event {k}: the tool shows {:?}, the library gives {:?}", got.get(k), exp.get(k)), json!({"stdout": out})));
                                }
                            }
                        }
                    } else if !failed {
                        let want = render_plain(&exp);
                        if out != want {
                            let pos = out.chars().zip(want.chars()).position(|(a, b)| a != b).unwrap_or(out.len().min(want.len()));
                            st.violation(mk(format!("plain-mode/differs-from-library/{}", d.feature), format!("stdout differs from the library's lines/tags/choices at char {pos}"), json!({"stdout": out, "expected": want})));
                        }
                    }
                    if failed && code == 0 {
                        st.violation(mk("exit-code/story-error".into(), "the library reports a fatal story error but the tool exited 0".into(), json!({"stderr": err})));
                    }
                    if !failed && code != 0 {
                        st.violation(mk(format!("exit-code/nonzero/{}", d.feature), format!("the tool exited {code}: {err}"), json!({"stderr": err, "stdout": out})));
                    }
                }
                (Ok((out, err, code)), Ok(Err(_))) => {
                    // the library cannot load the story: the tool must fail too, without garbage
                    if code == 0 {
                        st.violation(mk(format!("load/tool-accepts-what-library-refuses/{}", d.feature), "Story::new refuses the document but the tool exited 0".into(), json!({"stdout": out, "stderr": err})));
                    }
                }
                (Err(e), _) => st.notes.push(e),
                (_, Err(p)) => st.notes.push(format!("library panicked: {p}")),
            }
        } else {
            let j = i - n_play;
            let (name, fname, src) = &ccases[j / 2];
            let json_mode = j % 2 == 1;
            let file = dir.join(fname);
            std::fs::write(&file, src).ok();
            st.inc("cli_runs");
            let lib = guarded(|| {
                Compiler::with_options(CompilerOptions { count_all_visits: true, source_filename: Some(fname.clone()) }).compile_with_file_handler(src, |inc| Err(CompilerError::invalid_source(format!("Failed to read included file '{inc}'"))))
            });
            let mut args = vec![];
            if json_mode {
                args.push("-j");
            }
            args.push("-o");
            args.push("out.json");
            args.push(fname.as_str());
            let mk = |class: String, what: String, extra: Value| Violation {
                property: ID.into(),
                class: format!("{ID}/{class}"),
                what: format!("{what} [compile {name} as {fname:?} {}]", if json_mode { "-j" } else { "plain" }),
                artefact: json!({"check": "c20-compile", "source": src, "file_name": fname, "json_mode": json_mode, "detail": extra}),
            };
            match (run_cli(&args, "", &dir), lib) {
                (Ok((out, err, code)), Ok(Ok(expected))) => {
                    let written = std::fs::read_to_string(dir.join("out.json")).unwrap_or_default();
                    st.see("outputs", &written);
                    if code != 0 {
                        st.violation(mk("compile/exit-nonzero-on-success".into(), format!("the library compiles the source but the tool exited {code}: {err}"), json!({"stderr": err})));
                    } else if written != expected {
                        st.violation(mk("compile/output-differs".into(), "the file written by the tool is not the library's compiled output".into(), json!({"written_head": written.chars().take(200).collect::<String>(), "expected_head": expected.chars().take(200).collect::<String>()})));
                    }
                    if json_mode && let Err(e) = parse_json_stream(&out) {
                        st.violation(mk("compile/json-mode/malformed-output".into(), e, json!({"stdout": out})));
                    }
                }
                (Ok((out, err, code)), Ok(Err(e))) => {
                    let msg = e.to_string();
                    if code == 0 {
                        st.violation(mk("compile/exit-zero-on-error".into(), format!("the library reports {msg:?} but the tool exited 0"), json!({"stdout": out, "stderr": err})));
                    }
                    if json_mode {
                        match serde_json::Deserializer::from_str(&out).into_iter::<Value>().collect::<Result<Vec<Value>, _>>() {
                            Err(pe) => st.violation(mk("compile/json-mode/malformed-output".into(), format!("stdout is not a JSON stream: {pe}"), json!({"stdout": out}))),
                            Ok(vals) => {
                                let issues: Vec<String> = vals.iter().filter_map(|v| v.get("issues")).flat_map(|i| i.as_array().cloned().unwrap_or_default()).filter_map(|s| s.as_str().map(|s| s.to_string())).collect();
                                if !issues.iter().any(|s| s.contains(&msg)) {
                                    st.violation(mk("compile/json-mode/message-missing".into(), format!("the issues do not contain the compiler's message {msg:?}: {issues:?}"), json!({"stdout": out})));
                                }
                                if !vals.iter().any(|v| v.get("compile-success") == Some(&json!(false))) {
                                    st.violation(mk("compile/json-mode/no-compile-success-false".into(), "no {\"compile-success\": false} message".into(), json!({"stdout": out})));
                                }
                            }
                        }
                    } else if !err.contains(&msg) {
                        st.violation(mk("compile/message-missing".into(), format!("stderr does not contain the compiler's message {msg:?}: {err:?}"), json!({"stderr": err})));
                    }
                }
                (Err(e), _) => st.notes.push(e),
                (_, Err(p)) => st.notes.push(format!("compiler panicked in the library: {p}")),
            }
        }
        let _ = std::fs::remove_dir_all(&dir);
    });
    stats.notes.sort();
    stats.notes.dedup();
    stats.notes.truncate(10);
    stats.sample(json!({"story": docs[0].id, "script": cases[5].script, "json_mode": cases[5].json_mode}));
    stats.sample(json!({"inputs": INPUTS}));
    let exhaustive = done == total;
    let extra = vec![
        ("evaluations", json!(stats.get("cli_runs"))),
        ("distinct_nontrivial", json!(stats.n_distinct("outputs"))),
        ("rule", json!("one evaluation = one run of the rinklecate binary (story x stdin script x mode, or source x file name x mode); non-trivial/distinct = distinct stdout / written outputs observed")),
        ("exhaustive", json!(exhaustive)),
        ("bounds", json!({"runs": total, "runs_done": done, "play_runs": n_play, "compile_runs": ccases.len() * 2, "stories": docs.len(), "script_alphabet": INPUTS.len(), "script_length": slen, "scripts_on_template": all_scripts.len()})),
        ("caps_hit", json!(if exhaustive { vec![] } else { vec![format!("wall cap {secs}s: {done}/{total} runs")] })),
    ];
    finish(
        ID,
        tier,
        "exploration",
        &stats,
        extra,
        vec![
            "the JSON stream is parsed with serde_json's strict stream deserializer (not repository code)".into(),
            "the library side replays the stdin script with the input meanings the tool documents (number = 1-based choice, '-> path' = jump with call-stack reset, help, quit, blank lines ignored, end of input closes)".into(),
        ],
        started,
    )
}

pub fn replay(art: &Value) -> String {
    let dir = std::path::PathBuf::from("/verif/out/c20/replay");
    let _ = std::fs::remove_dir_all(&dir);
    std::fs::create_dir_all(&dir).ok();
    if art["check"] == "c20-compile" {
        let fname = art["file_name"].as_str().unwrap_or("story.ink");
        std::fs::write(dir.join(fname), art["source"].as_str().unwrap_or("")).ok();
        let mut args = vec![];
        if art["json_mode"] == true {
            args.push("-j");
        }
        args.extend(["-o", "out.json", fname]);
        return format!("{:?}", run_cli(&args, "", &dir));
    }
    std::fs::write(dir.join("story.ink.json"), art["story_json"].as_str().unwrap_or("")).ok();
    let script: Vec<String> = art["script"].as_array().map(|a| a.iter().filter_map(|s| s.as_str().map(|s| s.to_string())).collect()).unwrap_or_default();
    let stdin: String = script.iter().map(|l| format!("{l}\n")).collect();
    let mut args = vec![];
    if art["json_mode"] == true {
        args.push("-j");
    }
    if art["keep_open"] == true {
        args.push("-k");
    }
    args.push("story.ink.json");
    let r = run_cli(&args, &stdin, &dir);
    let lib = guarded(|| library_events(art["story_json"].as_str().unwrap_or(""), &script, art["keep_open"] == true));
    format!("tool: {r:?}\nlibrary: {lib:?}")
}
