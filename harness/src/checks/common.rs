//! Shared pieces of the lockstep-style checks: program sets, history alphabets, generic replay.
use crate::{
    hx::{self, LockCfg, Mismatch, Side, mismatch_json, sigma_play},
    inst::{Op, Setup, hist_from_json, hist_to_json},
    pool,
    prog::{CompileOutcome, Prog},
    report::Stats,
};
use serde_json::{Value, json};
use std::rc::Rc;

use super::Tier;

#[derive(Clone)]
pub enum ProgSrc {
    Source(String, String),
    /// reference-compiled corpus story: (name, json path, source path)
    CorpusJson(String, String, String),
    /// compiled from source, then marked as built by ink version 20: `Story::new` raises the
    /// version-mismatch warning
    SourceV20(String, String),
}

impl ProgSrc {
    pub fn name(&self) -> &str {
        match self {
            ProgSrc::Source(n, _) | ProgSrc::CorpusJson(n, _, _) | ProgSrc::SourceV20(n, _) => n,
        }
    }
    pub fn load(&self) -> Option<Rc<Prog>> {
        match self {
            ProgSrc::Source(n, s) => match Prog::from_source(n, s) {
                CompileOutcome::Ok(p) => Some(p),
                _ => None,
            },
            ProgSrc::SourceV20(n, s) => match Prog::from_source(n, s) {
                CompileOutcome::Ok(p) => {
                    let mut q = Prog::from_json(n, &p.json.replace("\"inkVersion\":21", "\"inkVersion\":20"));
                    q.functions = p.functions.clone();
                    q.plain_knots = p.plain_knots.clone();
                    Some(Rc::new(q))
                }
                _ => None,
            },
            ProgSrc::CorpusJson(n, j, s) => {
                let text = std::fs::read_to_string(j).ok()?;
                let text = text.trim_start_matches('\u{feff}').to_string();
                let mut p = Prog::from_json(n, &text);
                if let Ok(src) = std::fs::read_to_string(s) {
                    p.functions = crate::prog::functions_of_source(&src);
                    p.plain_knots = crate::prog::plain_knots_of_source(&src);
                }
                Some(Rc::new(p))
            }
        }
    }
}

/// base pool + segment family (k slots over the first a segments) + corpus json up to max bytes
/// the two pool programs that pause inside a forked thread / with an operand waiting on the
/// evaluation stack (long line sequences: only the checks that need such pauses add them)
pub fn pause_programs() -> Vec<ProgSrc> {
    pool::base_sources().into_iter().filter(|(n, _)| n.starts_with("mid-")).map(|(n, s)| ProgSrc::Source(n.to_string(), s.to_string())).collect()
}

pub fn program_set(seg_k: usize, seg_a: usize, corpus_max_bytes: usize) -> Vec<ProgSrc> {
    let mut v: Vec<ProgSrc> = pool::base_sources()
        .into_iter()
        .filter(|(n, _)| !n.starts_with("mid-"))
        .map(|(n, s)| ProgSrc::Source(n.to_string(), s.to_string()))
        .collect();
    if seg_k > 0 {
        for i in 0..pool::seg_count(seg_k, seg_a) {
            let (n, s) = pool::seg_nth(seg_k, seg_a, i);
            v.push(ProgSrc::Source(n, s));
        }
    }
    if corpus_max_bytes > 0 {
        let mut c: Vec<(u64, ProgSrc)> = pool::corpus_pairs()
            .into_iter()
            .filter_map(|(n, s, j)| {
                let len = std::fs::metadata(&j).ok()?.len();
                if len as usize <= corpus_max_bytes && !corpus_excluded(&n) {
                    Some((len, ProgSrc::CorpusJson(format!("corpus:{n}"), j, s)))
                } else {
                    None
                }
            })
            .collect();
        c.sort_by_key(|(l, p)| (*l, p.name().to_string()));
        v.extend(c.into_iter().map(|(_, p)| p));
    }
    v
}

/// Corpus stories whose output legitimately depends on hash-map iteration order of tied list
/// items (C03 owns that dimension) are kept out of the lockstep pools.
pub fn corpus_excluded(_name: &str) -> bool {
    false
}

/// History alphabet with flows: play ops, one switch into flow "f1" (where the story starts from
/// the top, or jumps to a plain knot), and back.
pub fn sigma_hist_flows(prog: &Prog) -> impl Fn(&Value, &[Op]) -> Vec<Op> + '_ {
    move |obs: &Value, hist: &[Op]| {
        let mut v = sigma_play(obs);
        let switches = hist.iter().filter(|o| matches!(o, Op::SwitchFlow(_))).count();
        let in_f1 = {
            let mut cur = false;
            for o in hist {
                match o {
                    Op::SwitchFlow(_) => cur = true,
                    Op::SwitchDefault => cur = false,
                    _ => {}
                }
            }
            cur
        };
        if switches == 0 {
            v.push(Op::SwitchFlow("f1".into()));
        }
        if in_f1 {
            v.push(Op::SwitchDefault);
            if matches!(hist.last(), Some(Op::SwitchFlow(_))) {
                for k in prog.plain_knots.iter().take(2) {
                    v.push(Op::ChoosePath(k.clone(), false));
                }
            }
        }
        v
    }
}

pub fn sigma_by_name<'a>(name: &str, prog: &'a Prog) -> Box<dyn Fn(&Value, &[Op]) -> Vec<Op> + 'a> {
    match name {
        "flows" => Box::new(sigma_hist_flows(prog)),
        // flows + one host assignment + one load-into-self + one path jump with call-stack reset
        // + one abandoned time-limited slice
        "rich" | "rich-noslice" => {
            let base = sigma_hist_flows(prog);
            let slices = name == "rich";
            Box::new(move |o: &Value, h: &[Op]| {
                let mut v = base(o, h);
                if o.get("dead").is_some() {
                    return v;
                }
                if !h.iter().any(|x| matches!(x, Op::SetVar(..)))
                    && let Some(g) = prog.globals.first()
                {
                    v.push(Op::SetVar(g.clone(), crate::inst::Val::Int(7)));
                }
                if !h.iter().any(|x| matches!(x, Op::LoadInto)) && !h.is_empty() {
                    v.push(Op::LoadInto);
                }
                if !h.iter().any(|x| matches!(x, Op::ChoosePath(_, true)))
                    && let Some(k) = prog.plain_knots.last()
                {
                    v.push(Op::ChoosePath(k.clone(), true));
                }
                if slices
                    && o["can_continue"].as_bool() == Some(true)
                    && !h.iter().any(|x| matches!(x, Op::ContAsync(_)))
                {
                    v.push(Op::ContAsync(2));
                }
                v
            })
        }
        // play + flow switch + (as first continuation) a path jump that keeps the call stack
        "play+switch+jump" => Box::new(move |o: &Value, s: &[Op]| {
            let mut v = sigma_play(o);
            if s.is_empty() {
                v.push(Op::SwitchFlow("fx".into()));
                v.push(Op::SwitchDefault);
                for k in prog.plain_knots.iter().take(3) {
                    v.push(Op::ChoosePath(k.clone(), false));
                }
            }
            v
        }),
        "play+switch" => Box::new(|o: &Value, s: &[Op]| {
            let mut v = sigma_play(o);
            if s.is_empty() {
                v.push(Op::SwitchFlow("fx".into()));
                v.push(Op::SwitchDefault);
            }
            v
        }),
        _ => Box::new(|o: &Value, _s: &[Op]| sigma_play(o)),
    }
}

pub fn norm_by_name(name: &str) -> Box<dyn Fn(&mut Value)> {
    match name {
        n if n.starts_with("drop-counts:") => {
            let names: Vec<String> =
                n["drop-counts:".len()..].split(',').map(|s| s.to_string()).collect();
            Box::new(move |v: &mut Value| {
                drop_counts(v, &names);
            })
        }
        _ => Box::new(|_v: &mut Value| {}),
    }
}

/// remove the visit counts / turn indices of the named containers and everything inside them
pub fn drop_counts(v: &mut Value, names: &[String]) {
    let hit = |p: &str| names.iter().any(|n| p == n || p.starts_with(&format!("{n}.")));
    if let Some(c) = v.get_mut("counts").and_then(|c| c.as_object_mut()) {
        c.retain(|k, _| !hit(k));
    }
    if let Some(s) = v.get_mut("save").and_then(|s| s.as_object_mut()) {
        for k in ["visitCounts", "turnIndices"] {
            if let Some(m) = s.get_mut(k).and_then(|m| m.as_object_mut()) {
                m.retain(|k, _| !hit(k));
            }
        }
    }
}

/// artefact of a lockstep violation, replayable by `replay_lockstep`
#[allow(clippy::too_many_arguments)]
pub fn lock_artefact(
    check: &str,
    prog: &Prog,
    setup_a: &Setup,
    setup_b: &Setup,
    hist_a: &[Op],
    hist_b: &[Op],
    depth: usize,
    sigma: &str,
    norm: &str,
    with_save: bool,
    m: Option<&Mismatch>,
    extra: Value,
) -> Value {
    let mut a = hx::artefact(check, prog, setup_a, json!({}));
    let o = a.as_object_mut().unwrap();
    o.insert("setup_b".into(), hx::artefact(check, prog, setup_b, json!({}))["setup"].clone());
    o.insert("hist_a".into(), hist_to_json(hist_a));
    o.insert("hist_b".into(), hist_to_json(hist_b));
    o.insert("depth".into(), json!(depth));
    o.insert("sigma".into(), json!(sigma));
    o.insert("norm".into(), json!(norm));
    o.insert("with_save".into(), json!(with_save));
    if let Some(m) = m {
        o.insert("mismatch".into(), mismatch_json(m));
    }
    o.insert("extra".into(), extra);
    a
}

pub fn prog_from_artefact(art: &Value) -> Option<Rc<Prog>> {
    let name = art["program_name"].as_str().unwrap_or("replay");
    if let Some(src) = art["source"].as_str() {
        match Prog::from_source(name, src) {
            CompileOutcome::Ok(p) => Some(p),
            _ => None,
        }
    } else {
        let j = art["json"].as_str()?;
        Some(Rc::new(Prog::from_json(name, j)))
    }
}

/// generic replay for every lockstep-style artefact
pub fn replay_lockstep(art: &Value) -> String {
    let Some(prog) = prog_from_artefact(art) else {
        return "program no longer compiles".into();
    };
    let sa = hx::setup_from_json(&art["setup"]);
    let sb = if art["setup_b"].is_object() { hx::setup_from_json(&art["setup_b"]) } else { sa.clone() };
    let ha = hist_from_json(&art["hist_a"]);
    let hb = hist_from_json(&art["hist_b"]);
    let sigma = sigma_by_name(art["sigma"].as_str().unwrap_or("play"), &prog);
    let norm = norm_by_name(art["norm"].as_str().unwrap_or(""));
    let cfg = LockCfg {
        depth: art["depth"].as_u64().unwrap_or(3) as usize,
        with_save: art["with_save"].as_bool().unwrap_or(true),
        sigma: &*sigma,
        norm: &*norm,
        compare_results: true,
    };
    let mut st = Stats::default();
    let out = hx::lockstep(
        &prog,
        &Side { setup: &sa, pre: &ha },
        &Side { setup: &sb, pre: &hb },
        &cfg,
        &mut st,
    );
    match out.mismatch {
        Some(m) => format!("MISMATCH {}", mismatch_json(&m)),
        None => "no mismatch (the two histories are bisimilar up to the depth bound)".into(),
    }
}

pub fn tier_secs(tier: Tier, quick: u64, thorough: u64) -> u64 {
    match tier {
        Tier::Quick => quick,
        Tier::Thorough => thorough,
    }
}

/// features of a saved state (computed from the canonical save JSON) used in violation classes
pub fn save_signature(save: &Value) -> String {
    let mut sig = vec![];
    if let Some(flows) = save.get("flows").and_then(|f| f.as_object()) {
        if flows.len() > 1 {
            sig.push("flows>1".to_string());
        }
        let mut threads = false;
        let mut depth = 0;
        let mut choices = 0;
        let mut empty_text_choice = false;
        for (_, f) in flows {
            if f.get("choiceThreads").is_some() {
                threads = true;
            }
            if let Some(ts) = f["callstack"]["threads"].as_array() {
                for t in ts {
                    depth = depth.max(t["callstack"].as_array().map(|a| a.len()).unwrap_or(0));
                }
                if ts.len() > 1 {
                    threads = true;
                }
            }
            if let Some(cs) = f["currentChoices"].as_array() {
                choices += cs.len();
                for c in cs {
                    if c["text"].as_str() == Some("") {
                        empty_text_choice = true;
                    }
                }
            }
        }
        if threads {
            sig.push("threads".into());
        }
        if depth > 1 {
            sig.push("nested-call".into());
        }
        if choices > 0 {
            sig.push("choices".into());
        }
        if empty_text_choice {
            sig.push("textless-choice".into());
        }
    }
    if let Some(vs) = save.get("variablesState").and_then(|v| v.as_object()) {
        for (_, v) in vs {
            if let Some(l) = v.get("list") {
                if l.as_object().map(|o| o.is_empty()).unwrap_or(false) {
                    sig.push("empty-list".into());
                } else {
                    sig.push("list".into());
                }
            }
        }
    }
    sig.sort();
    sig.dedup();
    if sig.is_empty() { "plain".into() } else { sig.join("+") }
}

// ---------------------------------------------------------------------------------------------
// generic "two histories must be bisimilar" runner over all prefixes of the history tree

pub struct Pair {
    pub kind: String,
    pub hist_a: Vec<Op>,
    pub hist_b: Vec<Op>,
    pub norm: String,
    /// how many trailing ops of hist_a are "the injected ones" whose results are judged
    pub injected: usize,
}

pub struct PairSpec<'a> {
    pub id: &'a str,
    pub check: &'a str,
    pub hist_depth: usize,
    pub lock_depth: usize,
    pub hist_sigma: &'a str,
    pub lock_sigma: &'a str,
    pub with_save: bool,
    /// pairs to compare at a prefix (prefix, observation with save at the prefix)
    pub pairs: &'a (dyn Fn(&Prog, &[Op], &Value) -> Vec<Pair> + Sync),
    /// judge the results of the injected ops: Some((class-suffix, what)) = violation
    pub judge: &'a (dyn Fn(&Pair, &[String]) -> Option<(String, String)> + Sync),
    /// class of a mismatch
    pub class: &'a (dyn Fn(&Pair, &Mismatch, &Value) -> String + Sync),
}

pub fn run_pairs(prog: &Rc<Prog>, setup: &Setup, spec: &PairSpec, stats: &mut Stats) {
    run_pairs_sharded(prog, setup, spec, stats, 0, 1)
}

/// the same, for the prefixes whose index is `shard` modulo `nshards` (a program with a large
/// history tree is spread over several workers; every shard enumerates the prefixes again)
pub fn run_pairs_sharded(prog: &Rc<Prog>, setup: &Setup, spec: &PairSpec, stats: &mut Stats, shard: usize, nshards: usize) {
    use crate::inst::Inst;
    use crate::report::Violation;
    let hs = sigma_by_name(spec.hist_sigma, prog);
    let ls = sigma_by_name(spec.lock_sigma, prog);
    let mut prefixes: Vec<(Vec<Op>, Value)> = vec![];
    let mut scratch = Stats::default();
    hx::explore(prog, setup, spec.hist_depth, &*hs, true, if shard == 0 { &mut *stats } else { &mut scratch }, &mut |h, _r, o, _i, _s| {
        prefixes.push((h.to_vec(), o.clone()));
        true
    });
    if shard == 0 {
        stats.add("prefixes", prefixes.len() as u64);
    }
    for (prefix, obs) in prefixes.iter().enumerate().filter(|(i, _)| i % nshards == shard).map(|(_, p)| p) {
        if obs.get("dead").is_some() {
            continue;
        }
        for pair in (spec.pairs)(prog, prefix, obs) {
            stats.inc("pairs");
            stats.see("pair_kinds", &pair.kind);
            if stats.samples.len() < 3 {
                stats.sample(json!({"program": prog.name, "hist_a": hist_to_json(&pair.hist_a), "hist_b": hist_to_json(&pair.hist_b), "kind": pair.kind}));
            }
            if pair.injected > 0 {
                let Ok((inst, rs)) = Inst::build(prog, setup, &pair.hist_a) else { continue };
                if inst.fuel_exhausted {
                    stats.inc("fuel_exhausted");
                    continue;
                }
                let tail = &rs[rs.len() - pair.injected..];
                let verdict = (spec.judge)(&pair, tail);
                if let Some((cls, _)) = &verdict
                    && cls == "SKIP"
                {
                    stats.inc("pairs_skipped_by_judge");
                    continue;
                }
                if let Some((cls, what)) = verdict {
                    stats.violation(Violation {
                        property: spec.id.into(),
                        class: format!("{}/{}", spec.id, cls),
                        what,
                        artefact: lock_artefact(
                            spec.check, prog, setup, setup, &pair.hist_a, &pair.hist_b,
                            spec.lock_depth, spec.lock_sigma, &pair.norm, spec.with_save, None,
                            json!({"kind": pair.kind, "injected_results": tail}),
                        ),
                    });
                    if tail.iter().any(|r| r.starts_with("panic:")) {
                        continue;
                    }
                }
            }
            let norm = norm_by_name(&pair.norm);
            let cfg = LockCfg {
                depth: spec.lock_depth,
                with_save: spec.with_save,
                sigma: &*ls,
                norm: &*norm,
                compare_results: true,
            };
            let out = hx::lockstep(
                prog,
                &Side { setup, pre: &pair.hist_a },
                &Side { setup, pre: &pair.hist_b },
                &cfg,
                stats,
            );
            if let Some(m) = out.mismatch {
                let class = (spec.class)(&pair, &m, obs);
                stats.violation(Violation {
                    property: spec.id.into(),
                    class: format!("{}/{}", spec.id, class),
                    what: format!(
                        "[{}] histories differ in `{}` after {} further op(s) (program {}, prefix of {} ops)",
                        pair.kind, m.field, m.suffix.len(), prog.name, prefix.len()
                    ),
                    artefact: lock_artefact(
                        spec.check, prog, setup, setup, &pair.hist_a, &pair.hist_b,
                        spec.lock_depth, spec.lock_sigma, &pair.norm, spec.with_save, Some(&m),
                        json!({"kind": pair.kind}),
                    ),
                });
            }
        }
    }
}

/// standard evidence extras for the model_checking level
pub fn mc_extras(stats: &Stats, bounds: Value, total: usize, done: usize, secs: u64) -> Vec<(&'static str, Value)> {
    let exhaustive = done == total;
    vec![
        ("states", json!(stats.n_distinct("states").max(1))),
        ("transitions", json!(stats.get("transitions").max(1))),
        ("traces_validated_against_impl", json!(stats.get("traces"))),
        ("exhaustive", json!(exhaustive)),
        ("bounds", bounds),
        ("caps_hit", json!(if exhaustive { vec![] } else { vec![format!("wall cap {secs}s: {done}/{total} programs completed")] })),
        ("merged", json!(false)),
    ]
}
