pub mod c01;
pub mod c02;
pub mod c03;
pub mod c04;
pub mod c05;
pub mod c06;
pub mod c07;
pub mod c08;
pub mod c09;
pub mod c10;
pub mod c11;
pub mod c12;
pub mod c13;
pub mod c14;
pub mod c15;
pub mod c16;
pub mod c17;
pub mod c18;
pub mod c19;
pub mod c20;
pub mod common;

use crate::report::{Evidence, Stats, report_violations, stats_to_json};
use serde_json::{Value, json};

#[derive(Clone, Copy, PartialEq, Debug)]
pub enum Tier {
    Quick,
    Thorough,
}
impl Tier {
    pub fn name(&self) -> &'static str {
        match self {
            Tier::Quick => "quick",
            Tier::Thorough => "thorough",
        }
    }
}

/// Common tail of every check: print findings/violations, write evidence, return exit code.
pub fn finish(
    property: &str,
    tier: Tier,
    level: &'static str,
    stats: &Stats,
    mut extra: Vec<(&str, Value)>,
    assumptions: Vec<String>,
    started: std::time::Instant,
) -> i32 {
    let out = report_violations(property, &stats.violations);
    let mut ev = Evidence::new(property, tier.name(), level);
    ev.started = started;
    ev.set("counters", stats_to_json(stats));
    ev.set("samples", json!(stats.samples));
    for (k, v) in extra.drain(..) {
        ev.set(k, v);
    }
    if !stats.notes.is_empty() {
        ev.set("notes", json!(stats.notes));
    }
    ev.assumptions = assumptions;
    ev.write(out.unlisted, out.known);
    println!(
        "[{property}] tier={} unlisted_violations={} known_findings_matched={} wall={:.1}s",
        tier.name(),
        out.unlisted,
        out.known,
        started.elapsed().as_secs_f64()
    );
    out.exit_code
}

/// dispatch table: property id -> (run, replay)
pub fn dispatch(id: &str) -> Option<(fn(Tier) -> i32, fn(&Value) -> String)> {
    match id {
        "C01" => Some((c01::run, c01::replay)),
        "C02" => Some((c02::run, common::replay_lockstep)),
        "C03" => Some((c03::run, c03::replay)),
        "C04" => Some((c04::run, c04::replay)),
        "C05" => Some((c05::run, c05::replay)),
        "C06" => Some((c06::run, c06::replay)),
        "C07" => Some((c07::run, c07::replay)),
        "C08" => Some((c08::run, c08::replay)),
        "C09" => Some((c09::run, c09::replay)),
        "C10" => Some((c10::run, c10::replay)),
        "C11" => Some((c11::run, c11::replay)),
        "C12" => Some((c12::run, c12::replay)),
        "C13" => Some((c13::run, c13::replay)),
        "C14" => Some((c14::run, c14::replay)),
        "C15" => Some((c15::run, c15::replay)),
        "C16" => Some((c16::run, common::replay_lockstep)),
        "C17" => Some((c17::run, c17::replay)),
        "C18" => Some((c18::run, c18::replay)),
        "C19" => Some((c19::run, c19::replay)),
        "C20" => Some((c20::run, c20::replay)),
        _ => None,
    }
}
