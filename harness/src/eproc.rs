//! E-proc: run cases in worker sub-processes so that aborts, stack overflows and hangs become
//! verdicts instead of killing the check. A worker is `vrun <cmd> ... --from A --to B`; it prints
//! one line "idx<TAB>payload" per case (flushed) and "DONE" at the end. The parent shards the index
//! space, watches every worker with a per-case wall cap, and restarts behind a case that crashed
//! or hung (so the offending input is identified exactly: it is the first index not reported).
use std::{
    io::{BufRead, BufReader},
    process::{Command, Stdio},
    sync::{Mutex, mpsc},
    time::Duration,
};

#[derive(Default)]
pub struct ProcResult {
    pub lines: Vec<(usize, String)>,
    /// (case index, how the worker died)
    pub crashes: Vec<(usize, String)>,
    pub hangs: Vec<usize>,
    /// cases that did not answer within the per-case cap in a shared worker but did answer when
    /// re-run alone with a twelve times longer cap (a loaded machine, not a hang)
    pub slow: Vec<usize>,
    pub workers_spawned: usize,
}

pub struct ProcCfg<'a> {
    pub bin: &'a str,
    pub args: Vec<String>,
    pub env: Vec<(String, String)>,
    pub n: usize,
    pub shards: usize,
    pub per_case: Duration,
    /// overall wall cap (seconds); when hit, remaining cases are not run
    pub deadline: std::time::Instant,
}

pub fn run_sharded(cfg: &ProcCfg) -> (ProcResult, usize) {
    let shards = cfg.shards.max(1).min(cfg.n.max(1));
    let chunk = cfg.n.div_ceil(shards);
    let total = Mutex::new(ProcResult::default());
    let done = Mutex::new(0usize);
    std::thread::scope(|s| {
        for sh in 0..shards {
            let (from, to) = (sh * chunk, ((sh + 1) * chunk).min(cfg.n));
            if from >= to {
                continue;
            }
            let total = &total;
            let done = &done;
            s.spawn(move || {
                let mut local = ProcResult::default();
                let mut cur = from;
                while cur < to {
                    if std::time::Instant::now() >= cfg.deadline {
                        break;
                    }
                    let mut cmd = Command::new(cfg.bin);
                    cmd.args(&cfg.args).arg("--from").arg(cur.to_string()).arg("--to").arg(to.to_string());
                    for (k, v) in &cfg.env {
                        cmd.env(k, v);
                    }
                    let Ok(mut child) = cmd.stdout(Stdio::piped()).stderr(Stdio::null()).spawn() else {
                        local.crashes.push((cur, "cannot spawn worker".into()));
                        break;
                    };
                    local.workers_spawned += 1;
                    let out = child.stdout.take().unwrap();
                    let (tx, rx) = mpsc::channel::<String>();
                    let reader = std::thread::spawn(move || {
                        for line in BufReader::new(out).lines().map_while(Result::ok) {
                            if tx.send(line).is_err() {
                                break;
                            }
                        }
                    });
                    let mut finished = false;
                    loop {
                        match rx.recv_timeout(cfg.per_case) {
                            Ok(line) => {
                                if line == "DONE" {
                                    finished = true;
                                    break;
                                }
                                if let Some((i, payload)) = line.split_once('\t')
                                    && let Ok(i) = i.parse::<usize>()
                                {
                                    local.lines.push((i, payload.to_string()));
                                    cur = i + 1;
                                }
                            }
                            Err(mpsc::RecvTimeoutError::Timeout) => {
                                let _ = child.kill();
                                // wall time is the only oracle for a hang, so a suspect is
                                // confirmed alone (own worker, 12 x the cap) before it counts
                                match run_alone(cfg, cur) {
                                    Some(payload) => {
                                        local.lines.push((cur, payload));
                                        local.slow.push(cur);
                                    }
                                    None => local.hangs.push(cur),
                                }
                                local.workers_spawned += 1;
                                cur += 1;
                                break;
                            }
                            Err(mpsc::RecvTimeoutError::Disconnected) => {
                                // worker died without DONE: the case it was on is `cur`
                                let st = child.wait().map(|s| format!("{s}")).unwrap_or_else(|e| e.to_string());
                                local.crashes.push((cur, st));
                                cur += 1;
                                break;
                            }
                        }
                    }
                    let _ = child.wait();
                    let _ = reader.join();
                    if finished {
                        cur = to;
                    }
                }
                *done.lock().unwrap() += cur.min(to) - from;
                let mut t = total.lock().unwrap();
                t.lines.extend(local.lines);
                t.crashes.extend(local.crashes);
                t.hangs.extend(local.hangs);
                t.slow.extend(local.slow);
                t.workers_spawned += local.workers_spawned;
            });
        }
    });
    let d = *done.lock().unwrap();
    (total.into_inner().unwrap(), d)
}

/// one case in a worker of its own, waited for 12 x the per-case cap; None = no answer (or crash)
fn run_alone(cfg: &ProcCfg, idx: usize) -> Option<String> {
    let mut cmd = Command::new(cfg.bin);
    cmd.args(&cfg.args).arg("--from").arg(idx.to_string()).arg("--to").arg((idx + 1).to_string());
    for (k, v) in &cfg.env {
        cmd.env(k, v);
    }
    let mut child = cmd.stdout(Stdio::piped()).stderr(Stdio::null()).spawn().ok()?;
    let out = child.stdout.take().unwrap();
    let (tx, rx) = mpsc::channel::<String>();
    let reader = std::thread::spawn(move || {
        for line in BufReader::new(out).lines().map_while(Result::ok) {
            if tx.send(line).is_err() {
                break;
            }
        }
    });
    let deadline = std::time::Instant::now() + cfg.per_case * 12;
    let mut answer = None;
    loop {
        let left = deadline.saturating_duration_since(std::time::Instant::now());
        if left.is_zero() {
            break;
        }
        match rx.recv_timeout(left) {
            Ok(line) => {
                if let Some((i, payload)) = line.split_once('\t')
                    && i.parse::<usize>() == Ok(idx)
                {
                    answer = Some(payload.to_string());
                    break;
                }
                if line == "DONE" {
                    break;
                }
            }
            Err(_) => break,
        }
    }
    let _ = child.kill();
    let _ = child.wait();
    let _ = reader.join();
    answer
}

/// helper for workers: print one case line and flush
pub fn emit(idx: usize, payload: &str) {
    use std::io::Write;
    let out = std::io::stdout();
    let mut l = out.lock();
    let _ = writeln!(l, "{idx}\t{}", payload.replace('\n', "\\n"));
    let _ = l.flush();
}
