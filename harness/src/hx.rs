//! History explorer: a state *is* the history that reaches it (Story is neither Clone nor
//! restorable without trusting save_state), so `build` constructs a fresh instance and replays.
use crate::{
    inst::{Inst, Op, Res, Setup, first_diff, hist_to_json},
    prog::Prog,
    report::Stats,
};
use serde_json::{Value, json};
use std::rc::Rc;

/// Default play alphabet: Cont while the story can continue, else every offered choice.
pub fn sigma_play(obs: &Value) -> Vec<Op> {
    if obs.get("dead").is_some() {
        return vec![];
    }
    if obs["can_continue"].as_bool() == Some(true) {
        vec![Op::Cont]
    } else {
        let n = obs["choices"].as_array().map(|a| a.len()).unwrap_or(0);
        (0..n).map(Op::Choose).collect()
    }
}

#[derive(Debug, Clone)]
pub struct Mismatch {
    pub suffix: Vec<Op>,
    /// index in suffix of the op after which the sides differ (== suffix.len() for the pre-state)
    pub field: String,
    pub a: Value,
    pub b: Value,
}

pub struct Side<'a> {
    pub setup: &'a Setup,
    pub pre: &'a [Op],
}

pub struct LockCfg<'a> {
    pub depth: usize,
    pub with_save: bool,
    /// ops enabled after an observation (of side A)
    pub sigma: &'a dyn Fn(&Value, &[Op]) -> Vec<Op>,
    /// normalise an observation before comparing (drop fields the property does not constrain)
    pub norm: &'a dyn Fn(&mut Value),
    /// compare call results of the common suffix too
    pub compare_results: bool,
}

pub struct LockOut {
    pub mismatch: Option<Mismatch>,
    pub fuel: bool,
}

fn run_side(prog: &Rc<Prog>, side: &Side, suffix: &[Op], with_save: bool) -> Result<(Vec<Res>, Value, bool), String> {
    let (mut inst, _) = Inst::build(prog, side.setup, side.pre)?;
    let mut rs = Vec::with_capacity(suffix.len());
    for op in suffix {
        rs.push(inst.apply(op));
    }
    let obs = inst.observe(with_save);
    Ok((rs, obs, inst.fuel_exhausted))
}

/// Bounded bisimulation of two histories of the same program: after every common continuation
/// of length <= depth the two instances must give equal results and equal observations.
pub fn lockstep(prog: &Rc<Prog>, a: &Side, b: &Side, cfg: &LockCfg, stats: &mut Stats) -> LockOut {
    let mut stack: Vec<Vec<Op>> = vec![vec![]];
    let mut fuel = false;
    while let Some(suffix) = stack.pop() {
        let ra = run_side(prog, a, &suffix, cfg.with_save);
        let rb = run_side(prog, b, &suffix, cfg.with_save);
        stats.add("transitions", (a.pre.len() + b.pre.len() + 2 * suffix.len()) as u64);
        stats.inc("lockstep_nodes");
        let (ra, rb) = match (ra, rb) {
            (Ok(x), Ok(y)) => (x, y),
            (Err(x), Err(y)) if x == y => continue,
            (x, y) => {
                return LockOut {
                    mismatch: Some(Mismatch {
                        suffix,
                        field: "construct".into(),
                        a: json!(x.err()),
                        b: json!(y.err()),
                    }),
                    fuel,
                };
            }
        };
        if ra.2 || rb.2 {
            fuel = true;
            stats.inc("fuel_exhausted");
            continue;
        }
        let (mut oa, mut ob) = (ra.1, rb.1);
        (cfg.norm)(&mut oa);
        (cfg.norm)(&mut ob);
        if cfg.compare_results && ra.0 != rb.0 {
            let idx = ra.0.iter().zip(rb.0.iter()).position(|(x, y)| x != y).unwrap_or(0);
            return LockOut {
                mismatch: Some(Mismatch {
                    field: format!("result[{}]", suffix.get(idx).map(|o| o.kind()).unwrap_or("?")),
                    suffix,
                    a: json!(ra.0),
                    b: json!(rb.0),
                }),
                fuel,
            };
        }
        if let Some(f) = first_diff(&oa, &ob) {
            let top = f.split('.').next().unwrap_or("").to_string();
            return LockOut {
                mismatch: Some(Mismatch {
                    suffix,
                    a: oa.get(&top).cloned().unwrap_or(Value::Null),
                    b: ob.get(&top).cloned().unwrap_or(Value::Null),
                    field: f,
                }),
                fuel,
            };
        }
        stats.see("states", &oa.to_string());
        if suffix.len() < cfg.depth {
            let mut next = (cfg.sigma)(&oa, &suffix);
            next.reverse();
            for op in next {
                let mut s = suffix.clone();
                s.push(op);
                stack.push(s);
            }
        } else {
            stats.inc("traces");
        }
        if suffix.len() < cfg.depth && (cfg.sigma)(&oa, &suffix).is_empty() {
            stats.inc("traces");
        }
    }
    LockOut { mismatch: None, fuel }
}

/// Enumerate all histories over `sigma` up to `depth` (pure tree, no merging); calls `visit`
/// with (history, results, observation) at every node. Returns number of nodes.
pub fn explore(
    prog: &Rc<Prog>,
    setup: &Setup,
    depth: usize,
    sigma: &dyn Fn(&Value, &[Op]) -> Vec<Op>,
    with_save: bool,
    stats: &mut Stats,
    visit: &mut dyn FnMut(&[Op], &[Res], &Value, &mut Inst, &mut Stats) -> bool,
) -> usize {
    let mut stack: Vec<Vec<Op>> = vec![vec![]];
    let mut nodes = 0;
    while let Some(h) = stack.pop() {
        let Ok((mut inst, rs)) = Inst::build(prog, setup, &h) else {
            stats.inc("construct_failed");
            continue;
        };
        stats.add("transitions", h.len() as u64);
        if inst.fuel_exhausted {
            stats.inc("fuel_exhausted");
            continue;
        }
        let obs = inst.observe(with_save);
        nodes += 1;
        stats.see("states", &obs.to_string());
        let go_on = visit(&h, &rs, &obs, &mut inst, stats);
        if !go_on {
            continue;
        }
        if h.len() < depth {
            let mut next = sigma(&obs, &h);
            if next.is_empty() {
                stats.inc("traces");
            }
            next.reverse();
            for op in next {
                let mut s = h.clone();
                s.push(op);
                stack.push(s);
            }
        } else {
            stats.inc("traces");
        }
    }
    nodes
}

/// All histories (as op lists) over sigma up to depth — for checks that need the list itself.
pub fn histories(
    prog: &Rc<Prog>,
    setup: &Setup,
    depth: usize,
    sigma: &dyn Fn(&Value, &[Op]) -> Vec<Op>,
    stats: &mut Stats,
) -> Vec<(Vec<Op>, Value)> {
    let mut out = vec![];
    explore(prog, setup, depth, sigma, false, stats, &mut |h, _r, o, _i, _s| {
        out.push((h.to_vec(), o.clone()));
        true
    });
    out
}

pub fn artefact(check: &str, prog: &Prog, setup: &Setup, extra: Value) -> Value {
    let mut v = json!({
        "check": check,
        "program_name": prog.name,
        "source": prog.source,
        "json": if prog.source.is_some() { Value::Null } else { json!(prog.json) },
        "setup": {
            "bind_externals": setup.bind_externals,
            "allow_fallbacks": setup.allow_fallbacks,
            "handler": setup.handler,
            "observers": setup.observers,
            "seed": setup.seed,
        },
    });
    if let (Some(m), Some(e)) = (v.as_object_mut(), extra.as_object()) {
        for (k, x) in e {
            m.insert(k.clone(), x.clone());
        }
    }
    v
}

pub fn setup_from_json(v: &Value) -> Setup {
    Setup {
        bind_externals: v["bind_externals"].as_bool(),
        allow_fallbacks: v["allow_fallbacks"].as_bool().unwrap_or(false),
        handler: v["handler"].as_bool().unwrap_or(false),
        observers: v["observers"]
            .as_array()
            .map(|a| {
                a.iter()
                    .map(|e| (e[0].as_u64().unwrap() as usize, e[1].as_str().unwrap().to_string()))
                    .collect()
            })
            .unwrap_or_default(),
        seed: v["seed"].as_i64().map(|s| s as i32),
    }
}

pub fn mismatch_json(m: &Mismatch) -> Value {
    json!({"suffix": hist_to_json(&m.suffix), "field": m.field, "a": m.a, "b": m.b})
}
