//! The harness's own tiny Ink AST (independent of compiler/src/ast.rs) and a renderer that prints
//! it in the layout the corpus uses. Only constructs with a written rule (RULES.md) exist here.
use std::fmt::Write;

#[derive(Clone, Debug, PartialEq)]
pub enum BinOp {
    Add,
    Sub,
    Mul,
    Div,
    Mod,
    Eq,
    Ne,
    Lt,
    Gt,
    Le,
    Ge,
    And,
    Or,
}

impl BinOp {
    pub fn text(&self) -> &'static str {
        match self {
            BinOp::Add => "+",
            BinOp::Sub => "-",
            BinOp::Mul => "*",
            BinOp::Div => "/",
            BinOp::Mod => "%",
            BinOp::Eq => "==",
            BinOp::Ne => "!=",
            BinOp::Lt => "<",
            BinOp::Gt => ">",
            BinOp::Le => "<=",
            BinOp::Ge => ">=",
            BinOp::And => "&&",
            BinOp::Or => "||",
        }
    }
}

#[derive(Clone, Debug, PartialEq)]
pub enum Expr {
    Int(i32),
    Bool(bool),
    Str(String),
    /// global or temp / parameter
    Var(String),
    /// read count of a knot ("k"), stitch ("k.s") or label
    Count(String),
    Bin(Box<Expr>, BinOp, Box<Expr>),
    Not(Box<Expr>),
    Neg(Box<Expr>),
    /// call of an Ink function
    Call(String, Vec<Expr>),
    TurnsSince(String),
    ChoiceCount,
    /// call of an EXTERNAL function
    Ext(String, Vec<Expr>),
    /// string literal with inline logic: "v{e}"
    Interp(Vec<Part>),
}

impl Expr {
    pub fn var(n: &str) -> Expr {
        Expr::Var(n.into())
    }
    pub fn bin(a: Expr, op: BinOp, b: Expr) -> Expr {
        Expr::Bin(Box::new(a), op, Box::new(b))
    }
    /// fully parenthesised source text (inkle's operator precedence is unusual; never rely on it)
    pub fn render(&self) -> String {
        match self {
            Expr::Int(i) => {
                if *i < 0 {
                    format!("(0 - {})", (*i as i64).abs())
                } else {
                    i.to_string()
                }
            }
            Expr::Bool(b) => b.to_string(),
            Expr::Str(s) => format!("\"{s}\""),
            Expr::Var(n) | Expr::Count(n) => n.clone(),
            Expr::Bin(a, op, b) => format!("({} {} {})", a.render(), op.text(), b.render()),
            Expr::Not(a) => format!("(not {})", a.render()),
            Expr::Neg(a) => format!("(0 - {})", a.render()),
            Expr::Call(f, args) => format!("{f}({})", args.iter().map(|a| a.render()).collect::<Vec<_>>().join(", ")),
            Expr::Ext(f, args) => format!("{f}({})", args.iter().map(|a| a.render()).collect::<Vec<_>>().join(", ")),
            Expr::Interp(parts) => format!("\"{}\"", render_parts(parts)),
            Expr::TurnsSince(k) => format!("TURNS_SINCE(-> {k})"),
            Expr::ChoiceCount => "CHOICE_COUNT()".into(),
        }
    }
}

#[derive(Clone, Debug, PartialEq)]
pub enum SeqKind {
    Stopping,
    Cycle,
    Once,
}

/// inline content of a line
#[derive(Clone, Debug, PartialEq)]
pub enum Part {
    Text(String),
    Glue,
    Print(Expr),
    /// {c: a|b}
    Cond(Expr, Vec<Part>, Vec<Part>),
    /// {a|b|c} / {&a|b} / {!a|b}; elements are plain text
    Seq(SeqKind, Vec<String>),
}

pub fn render_parts(parts: &[Part]) -> String {
    let mut s = String::new();
    for p in parts {
        match p {
            Part::Text(t) => s.push_str(t),
            Part::Glue => s.push_str("<>"),
            Part::Print(e) => write!(s, "{{{}}}", e.render()).unwrap(),
            Part::Cond(c, a, b) => {
                // no blank after ':' or around '|': blanks inside the braces belong to the branch
                // texts (RULES.md L1b), so they are written only where a part carries them
                if b.is_empty() {
                    write!(s, "{{{}:{}}}", c.render(), render_parts(a)).unwrap()
                } else {
                    write!(s, "{{{}:{}|{}}}", c.render(), render_parts(a), render_parts(b)).unwrap()
                }
            }
            Part::Seq(k, els) => {
                let pre = match k {
                    SeqKind::Stopping => "",
                    SeqKind::Cycle => "&",
                    SeqKind::Once => "!",
                };
                write!(s, "{{{pre}{}}}", els.join("|")).unwrap()
            }
        }
    }
    s
}

#[derive(Clone, Debug, PartialEq)]
pub enum Target {
    Knot(String),
    /// "knot.stitch"
    Stitch(String, String),
    Label(String),
    End,
    Done,
    /// knot with arguments: `-> give(1, x)`; the parameters become temps of the current frame
    KnotArgs(String, Vec<Expr>),
    /// a label addressed from another knot: `knot.label` / `knot.stitch.label` (prefix, label)
    LabelIn(String, String),
}

impl Target {
    pub fn render(&self) -> String {
        match self {
            Target::Knot(k) => k.clone(),
            Target::Stitch(k, s) => format!("{k}.{s}"),
            Target::Label(l) => l.clone(),
            Target::End => "END".into(),
            Target::Done => "DONE".into(),
            Target::LabelIn(prefix, l) => format!("{prefix}.{l}"),
            Target::KnotArgs(k, args) => format!("{k}({})", args.iter().map(|a| a.render()).collect::<Vec<_>>().join(", ")),
        }
    }
}

#[derive(Clone, Debug, PartialEq)]
pub enum AssignKind {
    Set,
    Add,
    Sub,
}

#[derive(Clone, Debug, PartialEq)]
pub struct Choice {
    pub sticky: bool,
    pub label: Option<String>,
    pub conds: Vec<Expr>,
    pub start: Vec<Part>,
    pub only: Vec<Part>,
    pub end: Vec<Part>,
    /// `* ->` : no text, never shown, followed when nothing else is on offer
    pub fallback: bool,
    pub body: Vec<Stmt>,
}

#[derive(Clone, Debug, PartialEq)]
pub struct Gather {
    pub label: Option<String>,
    pub parts: Vec<Part>,
}

#[derive(Clone, Debug, PartialEq)]
pub struct Weave {
    pub choices: Vec<Choice>,
    pub gather: Option<Gather>,
}

#[derive(Clone, Debug, PartialEq)]
pub enum Stmt {
    /// a content line; `divert` = trailing `-> target` on the same line
    Line { parts: Vec<Part>, tags: Vec<String>, divert: Option<Target> },
    Assign { name: String, expr: Expr, kind: AssignKind, temp_decl: bool },
    Divert(Target),
    /// only as the FIRST statement of a choice body: the divert is written on the choice line
    /// itself (`* text -> target`), so the choice's text runs on into the target's first line
    InlineDivert(Target),
    Tunnel(String),
    TunnelReturn,
    /// `->-> target`: leave the tunnel and go to `target` instead of back to the caller
    TunnelReturnTo(Target),
    /// block-form sequence: `{ stopping: - a... - b... }`, every element a list of statements
    SeqBlock(SeqKind, Vec<Vec<Stmt>>),
    Thread(String),
    CallStmt(Expr),
    Return(Option<Expr>),
    /// block conditional: first truthy branch, optional else
    If { branches: Vec<(Expr, Vec<Stmt>)>, else_: Option<Vec<Stmt>> },
    Weave(Weave),
}

impl Stmt {
    pub fn line(text: &str) -> Stmt {
        Stmt::Line { parts: vec![Part::Text(text.into())], tags: vec![], divert: None }
    }
    pub fn parts(parts: Vec<Part>) -> Stmt {
        Stmt::Line { parts, tags: vec![], divert: None }
    }
    pub fn set(name: &str, expr: Expr) -> Stmt {
        Stmt::Assign { name: name.into(), expr, kind: AssignKind::Set, temp_decl: false }
    }
}

#[derive(Clone, Debug, PartialEq)]
pub struct Knot {
    pub name: String,
    pub params: Vec<String>,
    pub is_function: bool,
    pub body: Vec<Stmt>,
    pub stitches: Vec<(String, Vec<Stmt>)>,
}

#[derive(Clone, Debug, PartialEq)]
pub struct Program {
    /// EXTERNAL declarations: (name, parameter names); an Ink function of the same name among
    /// the knots is its fallback
    pub externals: Vec<(String, Vec<String>)>,
    pub globals: Vec<(String, Expr)>,
    pub root: Vec<Stmt>,
    pub knots: Vec<Knot>,
}

fn indent(n: usize) -> String {
    "    ".repeat(n)
}

fn render_stmts(stmts: &[Stmt], ind: usize, level: usize, out: &mut String) {
    for s in stmts {
        render_stmt(s, ind, level, out);
    }
}

fn render_stmt(s: &Stmt, ind: usize, level: usize, out: &mut String) {
    let pad = indent(ind);
    match s {
        Stmt::Line { parts, tags, divert } => {
            let mut l = format!("{pad}{}", render_parts(parts));
            for t in tags {
                write!(l, " # {t}").unwrap();
            }
            if let Some(d) = divert {
                // text that ends in a comma is written tight against the arrow (`mug,-> k`), text
                // that ends in a blank gets no second one: T1b says the result is the same
                let sep = if l.ends_with(',') || l.ends_with(' ') { "" } else { " " };
                write!(l, "{sep}-> {}", d.render()).unwrap();
            }
            out.push_str(&l);
            out.push('\n');
        }
        Stmt::Assign { name, expr, kind, temp_decl } => {
            let op = match kind {
                AssignKind::Set => "=",
                AssignKind::Add => "+=",
                AssignKind::Sub => "-=",
            };
            writeln!(out, "{pad}~ {}{name} {op} {}", if *temp_decl { "temp " } else { "" }, expr.render()).unwrap();
        }
        Stmt::Divert(t) | Stmt::InlineDivert(t) => writeln!(out, "{pad}-> {}", t.render()).unwrap(),
        Stmt::Tunnel(t) => writeln!(out, "{pad}-> {t} ->").unwrap(),
        Stmt::TunnelReturn => writeln!(out, "{pad}->->").unwrap(),
        Stmt::TunnelReturnTo(t) => writeln!(out, "{pad}->-> {}", t.render()).unwrap(),
        Stmt::SeqBlock(kind, elems) => {
            let word = match kind {
                SeqKind::Stopping => "stopping",
                SeqKind::Cycle => "cycle",
                SeqKind::Once => "once",
            };
            writeln!(out, "{pad}{{ {word}:").unwrap();
            for e in elems {
                // the dash and the first statement share a line
                let mut body = String::new();
                render_stmts(e, ind + 1, level, &mut body);
                let body = body.trim_start().to_string();
                write!(out, "{pad}- {body}").unwrap();
                if body.is_empty() {
                    out.push('\n');
                }
            }
            writeln!(out, "{pad}}}").unwrap();
        }
        Stmt::Thread(t) => writeln!(out, "{pad}<- {t}").unwrap(),
        Stmt::CallStmt(e) => writeln!(out, "{pad}~ {}", e.render()).unwrap(),
        Stmt::Return(e) => match e {
            Some(e) => writeln!(out, "{pad}~ return {}", e.render()).unwrap(),
            None => writeln!(out, "{pad}~ return").unwrap(),
        },
        Stmt::If { branches, else_ } => {
            if branches.len() == 1 {
                writeln!(out, "{pad}{{ {}:", branches[0].0.render()).unwrap();
                render_stmts(&branches[0].1, ind + 1, level, out);
            } else {
                writeln!(out, "{pad}{{").unwrap();
                for (c, b) in branches {
                    writeln!(out, "{pad}- {}:", c.render()).unwrap();
                    render_stmts(b, ind + 1, level, out);
                }
            }
            if let Some(e) = else_ {
                writeln!(out, "{pad}- else:").unwrap();
                render_stmts(e, ind + 1, level, out);
            }
            writeln!(out, "{pad}}}").unwrap();
        }
        Stmt::Weave(w) => {
            let lvl = level + 1;
            for c in &w.choices {
                let mark = if c.sticky { "+ " } else { "* " }.repeat(lvl);
                let mut l = format!("{pad}{mark}");
                if let Some(lab) = &c.label {
                    write!(l, "({lab}) ").unwrap();
                }
                for cond in &c.conds {
                    write!(l, "{{{}}} ", cond.render()).unwrap();
                }
                if c.fallback {
                    l.push_str("->");
                } else {
                    l.push_str(&render_parts(&c.start));
                    if !c.only.is_empty() || !c.end.is_empty() || c.start.is_empty() {
                        write!(l, "[{}]", render_parts(&c.only)).unwrap();
                    }
                    l.push_str(&render_parts(&c.end));
                }
                let mut body = &c.body[..];
                if let Some(Stmt::InlineDivert(t)) = body.first() {
                    let text = l.trim_end().to_string();
                    l = format!("{text} -> {}", t.render());
                    body = &body[1..];
                }
                out.push_str(l.trim_end());
                out.push('\n');
                render_stmts(body, ind + 1, lvl, out);
            }
            if let Some(g) = &w.gather {
                let mark = "- ".repeat(lvl);
                let mut l = format!("{pad}{mark}");
                if let Some(lab) = &g.label {
                    write!(l, "({lab}) ").unwrap();
                }
                l.push_str(&render_parts(&g.parts));
                out.push_str(l.trim_end());
                out.push('\n');
            }
        }
    }
}

impl Program {
    pub fn render(&self) -> String {
        let mut out = String::new();
        for (n, ps) in &self.externals {
            writeln!(out, "EXTERNAL {n}({})", ps.join(", ")).unwrap();
        }
        for (n, e) in &self.globals {
            writeln!(out, "VAR {n} = {}", e.render()).unwrap();
        }
        render_stmts(&self.root, 0, 0, &mut out);
        for k in &self.knots {
            if k.is_function {
                writeln!(out, "=== function {}({}) ===", k.name, k.params.join(", ")).unwrap();
            } else if k.params.is_empty() {
                writeln!(out, "=== {} ===", k.name).unwrap();
            } else {
                writeln!(out, "=== {}({}) ===", k.name, k.params.join(", ")).unwrap();
            }
            render_stmts(&k.body, 0, 0, &mut out);
            for (sn, sb) in &k.stitches {
                writeln!(out, "= {sn}").unwrap();
                render_stmts(sb, 0, 0, &mut out);
            }
        }
        out
    }
}
