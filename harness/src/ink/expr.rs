//! Independent evaluator for Ink expressions over numbers, strings and lists (C07).
//!
//! Nothing here calls into the runtime or the compiler. The rules are DESIGN Appendix B /
//! RULES.md L4 and E1-E9: what inkle's documentation says, and where it is silent what the reference
//! parser and runtime do. `Stop::Ill` marks a tree as not well-typed (outside the property's
//! quantifier, never compared), `Stop::Inexact` marks a float result that is not exactly
//! representable in a few binary digits (its decimal spelling differs between reference runtimes).
use std::collections::BTreeSet;

/// (list name, [(item, value, initially set)])
pub const LISTS: &[(&str, &[(&str, i32, bool)])] = &[
    ("A", &[("a1", 1, false), ("a2", 2, true), ("a3", 3, false)]),
    ("B", &[("b1", 1, false), ("b2", 2, false), ("b3", 5, true)]),
    ("C", &[("c1", 1, false)]),
    ("D", &[("d2", 2, true), ("d4", 4, false)]),
];

pub fn header() -> String {
    let mut s = String::new();
    for (name, items) in LISTS {
        let mut parts = vec![];
        let mut next = 1;
        for (it, v, on) in items.iter() {
            let body = if *v == next { it.to_string() } else { format!("{it} = {v}") };
            next = v + 1;
            parts.push(if *on { format!("({body})") } else { body });
        }
        s.push_str(&format!("LIST {name} = {}\n", parts.join(", ")));
    }
    s.push_str("VAR vi = 5\nVAR vf = 2.5\nVAR vb = true\nVAR vs = \"b\"\nVAR ve = ()\nVAR vl = ()\n");
    s
}

#[derive(Clone, Debug, PartialEq, Eq, PartialOrd, Ord)]
pub struct LV {
    /// (value, origin, item): this order is the printing order
    pub items: BTreeSet<(i32, &'static str, &'static str)>,
    /// origin names: those of the items when there are items, the remembered ones when empty
    pub origins: BTreeSet<&'static str>,
}
impl LV {
    pub fn empty() -> LV {
        LV { items: BTreeSet::new(), origins: BTreeSet::new() }
    }
    fn norm(mut self) -> LV {
        if !self.items.is_empty() {
            self.origins = self.items.iter().map(|i| i.1).collect();
        }
        self
    }
    fn of(items: BTreeSet<(i32, &'static str, &'static str)>) -> LV {
        LV { items, origins: BTreeSet::new() }.norm()
    }
    fn minv(&self) -> i32 {
        self.items.iter().next().map(|i| i.0).unwrap_or(0)
    }
    fn maxv(&self) -> i32 {
        self.items.iter().next_back().map(|i| i.0).unwrap_or(0)
    }
}

#[derive(Clone, Debug, PartialEq)]
pub enum EV {
    Int(i32),
    Float(f32),
    Bool(bool),
    Str(String),
    List(LV),
}
impl EV {
    pub fn ty(&self) -> &'static str {
        match self {
            EV::Int(_) => "Int",
            EV::Float(_) => "Float",
            EV::Bool(_) => "Bool",
            EV::Str(_) => "Str",
            EV::List(l) => {
                if l.items.is_empty() {
                    "EmptyList"
                } else {
                    "List"
                }
            }
        }
    }
}

#[derive(Clone, Debug, PartialEq)]
pub enum Stop {
    Ill,
    Inexact,
    /// a story error (integer division by zero)
    Error(&'static str),
}

#[derive(Clone, Copy, Debug, PartialEq, Eq)]
pub enum B {
    Add,
    Sub,
    Mul,
    Div,
    Mod,
    Eq,
    Ne,
    Lt,
    Gt,
    Le,
    Ge,
    And,
    Or,
    Has,
    Hasnt,
    Xor,
    Min,
    Max,
    Pow,
}
pub const INFIX: &[B] = &[B::Add, B::Sub, B::Mul, B::Div, B::Mod, B::Eq, B::Ne, B::Lt, B::Gt, B::Le, B::Ge, B::And, B::Or, B::Has, B::Hasnt, B::Xor];
pub const BINARY: &[B] = &[
    B::Add,
    B::Sub,
    B::Mul,
    B::Div,
    B::Mod,
    B::Eq,
    B::Ne,
    B::Lt,
    B::Gt,
    B::Le,
    B::Ge,
    B::And,
    B::Or,
    B::Has,
    B::Hasnt,
    B::Xor,
    B::Min,
    B::Max,
    B::Pow,
];
impl B {
    pub fn text(&self, kw: bool) -> &'static str {
        match self {
            B::Add => "+",
            B::Sub => "-",
            B::Mul => "*",
            B::Div => "/",
            B::Mod => {
                if kw {
                    "mod"
                } else {
                    "%"
                }
            }
            B::Eq => "==",
            B::Ne => "!=",
            B::Lt => "<",
            B::Gt => ">",
            B::Le => "<=",
            B::Ge => ">=",
            B::And => {
                if kw {
                    "and"
                } else {
                    "&&"
                }
            }
            B::Or => {
                if kw {
                    "or"
                } else {
                    "||"
                }
            }
            B::Has => {
                if kw {
                    "has"
                } else {
                    "?"
                }
            }
            B::Hasnt => {
                if kw {
                    "hasnt"
                } else {
                    "!?"
                }
            }
            B::Xor => "^",
            B::Min => "MIN",
            B::Max => "MAX",
            B::Pow => "POW",
        }
    }
    /// E9: the reference parser's binding strength (higher binds tighter, equal is left-associative)
    pub fn prec(&self) -> u8 {
        match self {
            B::And | B::Or => 1,
            B::Eq | B::Ne | B::Lt | B::Gt | B::Le | B::Ge => 2,
            B::Has | B::Hasnt | B::Xor => 3,
            B::Add => 4,
            B::Sub => 5,
            B::Mul => 6,
            B::Div => 7,
            B::Mod => 8,
            _ => 9,
        }
    }
    pub fn is_call(&self) -> bool {
        matches!(self, B::Min | B::Max | B::Pow)
    }
}

#[derive(Clone, Copy, Debug, PartialEq, Eq)]
pub enum U {
    Neg,
    Not,
    Floor,
    Ceiling,
    Int,
    Float,
    Count,
    Value,
    LMin,
    LMax,
    All,
    Invert,
    /// list-from-int: `A(n)`
    From(&'static str),
}
pub const UNARY: &[U] = &[
    U::Neg,
    U::Not,
    U::Floor,
    U::Ceiling,
    U::Int,
    U::Float,
    U::Count,
    U::Value,
    U::LMin,
    U::LMax,
    U::All,
    U::Invert,
    U::From("A"),
    U::From("B"),
    U::From("C"),
    U::From("D"),
];
impl U {
    pub fn name(&self) -> String {
        match self {
            U::Neg => "-".into(),
            U::Not => "not".into(),
            U::Floor => "FLOOR".into(),
            U::Ceiling => "CEILING".into(),
            U::Int => "INT".into(),
            U::Float => "FLOAT".into(),
            U::Count => "LIST_COUNT".into(),
            U::Value => "LIST_VALUE".into(),
            U::LMin => "LIST_MIN".into(),
            U::LMax => "LIST_MAX".into(),
            U::All => "LIST_ALL".into(),
            U::Invert => "LIST_INVERT".into(),
            U::From(l) => l.to_string(),
        }
    }
}

#[derive(Clone, Debug, PartialEq)]
pub enum X {
    Int(i32),
    Float(f32),
    Bool(bool),
    Str(&'static str),
    /// header variable or LIST name used as a variable
    Var(&'static str),
    /// bare list item used as a value (`a2`, `D.d4`)
    Item(&'static str),
    /// list literal `(a1, b1)`, `()` when empty
    Lit(Vec<&'static str>),
    Un(U, Box<X>),
    Bin(Box<X>, B, Box<X>),
    Range(Box<X>, Box<X>, Box<X>),
}

impl X {
    pub fn bin(a: X, op: B, b: X) -> X {
        X::Bin(Box::new(a), op, Box::new(b))
    }
    pub fn un(u: U, a: X) -> X {
        X::Un(u, Box::new(a))
    }
    /// fully parenthesised source text; `kw` uses the keyword spellings (and, or, not, mod, has, hasnt)
    pub fn render(&self, kw: bool) -> String {
        match self {
            X::Int(i) => i.to_string(),
            X::Float(f) => format!("{f:?}"),
            X::Bool(b) => b.to_string(),
            X::Str(s) => format!("\"{s}\""),
            X::Var(n) | X::Item(n) => n.to_string(),
            X::Lit(items) => format!("({})", items.join(", ")),
            X::Un(u, a) => match u {
                U::Neg => format!("(-{})", a.render(kw)),
                U::Not => {
                    if kw {
                        format!("(not {})", a.render(kw))
                    } else {
                        format!("(!{})", a.render(kw))
                    }
                }
                _ => format!("{}({})", u.name(), a.render_arg(kw)),
            },
            X::Bin(a, op, b) => {
                if op.is_call() {
                    format!("{}({}, {})", op.text(kw), a.render_arg(kw), b.render_arg(kw))
                } else {
                    format!("({} {} {})", a.render(kw), op.text(kw), b.render(kw))
                }
            }
            X::Range(l, a, b) => format!("LIST_RANGE({}, {}, {})", l.render_arg(kw), a.render_arg(kw), b.render_arg(kw)),
        }
    }
    /// a call argument needs no parentheses of its own
    fn render_arg(&self, kw: bool) -> String {
        let s = self.render(kw);
        match self {
            X::Bin(_, op, _) if !op.is_call() => s[1..s.len() - 1].to_string(),
            X::Un(U::Neg | U::Not, _) => s[1..s.len() - 1].to_string(),
            _ => s,
        }
    }
    /// the operators of the tree, outermost first: the violation class is computed from this and the
    /// operand types
    pub fn shape(&self) -> String {
        match self {
            X::Un(u, a) => {
                let inner = a.shape();
                if inner.is_empty() { u.name() } else { format!("{}({inner})", u.name()) }
            }
            X::Bin(a, op, b) => {
                let (l, r) = (a.shape(), b.shape());
                if l.is_empty() && r.is_empty() { format!("{op:?}") } else { format!("{op:?}({l};{r})") }
            }
            X::Range(..) => "LIST_RANGE".into(),
            _ => String::new(),
        }
    }
    pub fn atoms(&self, out: &mut Vec<X>) {
        match self {
            X::Un(_, a) => a.atoms(out),
            X::Bin(a, _, b) => {
                a.atoms(out);
                b.atoms(out);
            }
            X::Range(l, a, b) => {
                l.atoms(out);
                a.atoms(out);
                b.atoms(out);
            }
            x => out.push(x.clone()),
        }
    }
}

/// flat chain `a0 op0 a1 op1 a2 ...` without parentheses
pub fn render_chain(atoms: &[X], ops: &[B], kw: bool) -> String {
    let mut s = atoms[0].render(kw);
    for (i, op) in ops.iter().enumerate() {
        s.push_str(&format!(" {} {}", op.text(kw), atoms[i + 1].render(kw)));
    }
    s
}

/// E9: precedence climbing exactly as the reference parser does it: the right operand of an operator
/// of strength p absorbs only operators stronger than p
pub fn parse_chain(atoms: &[X], ops: &[B]) -> X {
    fn expr(atoms: &[X], ops: &[B], i: &mut usize, minp: u8) -> X {
        let mut left = atoms[*i].clone();
        while *i < ops.len() && ops[*i].prec() > minp {
            let op = ops[*i];
            *i += 1;
            let right = expr(atoms, ops, i, op.prec());
            left = X::bin(left, op, right);
        }
        left
    }
    let mut i = 0;
    expr(atoms, ops, &mut i, 0)
}

fn item(full: &'static str) -> Option<(i32, &'static str, &'static str)> {
    let (origin, name) = match full.split_once('.') {
        Some((o, n)) => (Some(o), n),
        None => (None, full),
    };
    let mut found = None;
    for (l, items) in LISTS {
        if origin.is_some() && origin != Some(*l) {
            continue;
        }
        for (it, v, _) in items.iter() {
            if *it == name {
                if found.is_some() {
                    return None; // ambiguous
                }
                found = Some((*v, *l, *it));
            }
        }
    }
    found
}

pub fn var_value(name: &str) -> Option<EV> {
    Some(match name {
        "vi" => EV::Int(5),
        "vf" => EV::Float(2.5),
        "vb" => EV::Bool(true),
        "vs" => EV::Str("b".into()),
        "ve" => EV::List(LV::empty()),
        // the driver sets vl = (a1, b1) before every case
        "vl" => EV::List(LV::of([item("a1")?, item("b1")?].into_iter().collect())),
        _ => {
            let (l, items) = LISTS.iter().find(|(l, _)| *l == name)?;
            let set: BTreeSet<_> = items.iter().filter(|i| i.2).map(|i| (i.1, *l, i.0)).collect();
            let mut lv = LV { items: set, origins: [*l].into_iter().collect() };
            lv = lv.norm();
            EV::List(lv)
        }
    })
}

fn truthy(v: &EV) -> Result<bool, Stop> {
    Ok(match v {
        EV::Int(i) => *i != 0,
        EV::Float(f) => *f != 0.0,
        EV::Bool(b) => *b,
        EV::List(l) => !l.items.is_empty(),
        EV::Str(_) => return Err(Stop::Ill),
    })
}

fn ord(v: &EV) -> u8 {
    match v {
        EV::Bool(_) => 0,
        EV::Int(_) => 1,
        EV::Float(_) => 2,
        EV::List(_) => 3,
        EV::Str(_) => 4,
    }
}

pub fn float_text(f: f32) -> String {
    // exactly representable values only reach here: shortest decimal that round-trips
    format!("{f}")
}

pub fn print(v: &EV) -> String {
    match v {
        EV::Int(i) => i.to_string(),
        EV::Float(f) => float_text(*f),
        EV::Bool(b) => b.to_string(),
        EV::Str(s) => s.clone(),
        EV::List(l) => l.items.iter().map(|i| i.2).collect::<Vec<_>>().join(", "),
    }
}

fn exact(f: f32) -> Result<f32, Stop> {
    let scaled = f as f64 * 64.0;
    if f.is_finite() && scaled.fract() == 0.0 && scaled.abs() < 64.0 * 100000.0 { Ok(f) } else { Err(Stop::Inexact) }
}

fn as_int(v: &EV) -> i32 {
    match v {
        EV::Int(i) => *i,
        EV::Bool(b) => *b as i32,
        _ => unreachable!(),
    }
}
fn as_float(v: &EV) -> f32 {
    match v {
        EV::Int(i) => *i as f32,
        EV::Bool(b) => *b as i32 as f32,
        EV::Float(f) => *f,
        _ => unreachable!(),
    }
}
fn as_str(v: &EV) -> String {
    print(v)
}

fn shift(l: &LV, n: i32, sub: bool) -> LV {
    let mut out = BTreeSet::new();
    for (v, o, _) in &l.items {
        let t = if sub { v.wrapping_sub(n) } else { v.wrapping_add(n) };
        if let Some((_, items)) = LISTS.iter().find(|(ln, _)| ln == o) {
            if let Some(it) = items.iter().find(|i| i.1 == t) {
                out.insert((t, *o, it.0));
            }
        }
    }
    LV::of(out)
}

fn all_of(origins: &BTreeSet<&'static str>) -> BTreeSet<(i32, &'static str, &'static str)> {
    let mut out = BTreeSet::new();
    for (l, items) in LISTS {
        if origins.contains(l) {
            for (it, v, _) in items.iter() {
                out.insert((*v, *l, *it));
            }
        }
    }
    out
}

fn list_bin(op: B, a: &LV, b: &LV) -> Result<EV, Stop> {
    let (ae, be) = (a.items.is_empty(), b.items.is_empty());
    Ok(match op {
        B::Add => {
            let items: BTreeSet<_> = a.items.union(&b.items).cloned().collect();
            EV::List(LV { items, origins: a.origins.clone() }.norm())
        }
        B::Sub => {
            let items: BTreeSet<_> = a.items.difference(&b.items).cloned().collect();
            EV::List(LV { items, origins: a.origins.clone() }.norm())
        }
        B::Xor => EV::List(LV::of(a.items.intersection(&b.items).cloned().collect())),
        B::Eq => EV::Bool(a.items == b.items),
        B::Ne => EV::Bool(a.items != b.items),
        B::Gt => EV::Bool(!ae && (be || a.minv() > b.maxv())),
        B::Ge => EV::Bool(!ae && (be || (a.minv() >= b.minv() && a.maxv() >= b.maxv()))),
        B::Lt => EV::Bool(!be && (ae || a.maxv() < b.minv())),
        B::Le => EV::Bool(!be && (ae || (a.maxv() <= b.maxv() && a.minv() <= b.minv()))),
        B::Has => EV::Bool(!ae && !be && b.items.is_subset(&a.items)),
        B::Hasnt => EV::Bool(!(!ae && !be && b.items.is_subset(&a.items))),
        B::And => EV::Bool(!ae && !be),
        B::Or => EV::Bool(!ae || !be),
        _ => return Err(Stop::Ill),
    })
}

fn bin1(op: B, a: &EV, b: &EV) -> Result<EV, Stop> {
    if let (EV::List(l), EV::List(m)) = (a, b) {
        return list_bin(op, l, m);
    }
    if matches!(a, EV::List(_)) || matches!(b, EV::List(_)) {
        if let (EV::List(l), EV::Int(n)) = (a, b) {
            if op == B::Add || op == B::Sub {
                return Ok(EV::List(shift(l, *n, op == B::Sub)));
            }
        }
        if op == B::And || op == B::Or {
            let (x, y) = (truthy(a)?, truthy(b)?);
            return Ok(EV::Bool(if op == B::And { x && y } else { x || y }));
        }
        return Err(Stop::Ill);
    }
    let dest = ord(a).max(ord(b)).max(1);
    match dest {
        1 => {
            let (x, y) = (as_int(a), as_int(b));
            Ok(match op {
                B::Add => EV::Int(x.wrapping_add(y)),
                B::Sub => EV::Int(x.wrapping_sub(y)),
                B::Mul => EV::Int(x.wrapping_mul(y)),
                B::Div => {
                    if y == 0 {
                        return Err(Stop::Error("division by zero"));
                    }
                    EV::Int(x.wrapping_div(y))
                }
                B::Mod => {
                    if y == 0 {
                        return Err(Stop::Error("modulo by zero"));
                    }
                    EV::Int(x.wrapping_rem(y))
                }
                B::Eq => EV::Bool(x == y),
                B::Ne => EV::Bool(x != y),
                B::Lt => EV::Bool(x < y),
                B::Gt => EV::Bool(x > y),
                B::Le => EV::Bool(x <= y),
                B::Ge => EV::Bool(x >= y),
                B::And => EV::Bool(x != 0 && y != 0),
                B::Or => EV::Bool(x != 0 || y != 0),
                B::Min => EV::Int(x.min(y)),
                B::Max => EV::Int(x.max(y)),
                B::Pow => EV::Float(exact((x as f64).powf(y as f64) as f32)?),
                B::Has | B::Hasnt | B::Xor => return Err(Stop::Ill),
            })
        }
        2 => {
            let (x, y) = (as_float(a), as_float(b));
            Ok(match op {
                B::Add => EV::Float(exact(x + y)?),
                B::Sub => EV::Float(exact(x - y)?),
                B::Mul => EV::Float(exact(x * y)?),
                B::Div => {
                    if y == 0.0 {
                        return Err(Stop::Inexact);
                    }
                    let q = exact(x / y)?;
                    if (q as f64) * (y as f64) != x as f64 {
                        return Err(Stop::Inexact);
                    }
                    EV::Float(q)
                }
                B::Mod => {
                    if y == 0.0 {
                        return Err(Stop::Inexact);
                    }
                    EV::Float(exact(x % y)?)
                }
                B::Eq => EV::Bool(x == y),
                B::Ne => EV::Bool(x != y),
                B::Lt => EV::Bool(x < y),
                B::Gt => EV::Bool(x > y),
                B::Le => EV::Bool(x <= y),
                B::Ge => EV::Bool(x >= y),
                B::And => EV::Bool(x != 0.0 && y != 0.0),
                B::Or => EV::Bool(x != 0.0 || y != 0.0),
                B::Min => EV::Float(x.min(y)),
                B::Max => EV::Float(x.max(y)),
                B::Pow => {
                    let p = (x as f64).powf(y as f64);
                    if !p.is_finite() || (p as f32) as f64 != p {
                        return Err(Stop::Inexact);
                    }
                    EV::Float(exact(p as f32)?)
                }
                B::Has | B::Hasnt | B::Xor => return Err(Stop::Ill),
            })
        }
        _ => {
            // strings: concatenation and equality take a number on the other side (converted to
            // text), containment takes two strings
            let both = matches!(a, EV::Str(_)) && matches!(b, EV::Str(_));
            let (x, y) = (as_str(a), as_str(b));
            Ok(match op {
                B::Add => EV::Str(format!("{x}{y}")),
                B::Eq => EV::Bool(x == y),
                B::Ne => EV::Bool(x != y),
                B::Has if both => EV::Bool(x.contains(&y)),
                B::Hasnt if both => EV::Bool(!x.contains(&y)),
                _ => return Err(Stop::Ill),
            })
        }
    }
}

fn un1(u: U, a: &EV) -> Result<Vec<EV>, Stop> {
    let one = |v: EV| Ok(vec![v]);
    match (u, a) {
        (U::Neg, EV::Int(_) | EV::Bool(_)) => one(EV::Int(as_int(a).wrapping_neg())),
        (U::Neg, EV::Float(f)) => one(EV::Float(-*f)),
        (U::Not, EV::Int(_) | EV::Bool(_)) => one(EV::Bool(as_int(a) == 0)),
        (U::Not, EV::Float(f)) => one(EV::Bool(*f == 0.0)),
        (U::Not, EV::List(l)) => one(EV::Int(l.items.is_empty() as i32)),
        (U::Floor | U::Ceiling | U::Int, EV::Int(_) | EV::Bool(_)) => one(EV::Int(as_int(a))),
        (U::Float, EV::Int(_) | EV::Bool(_)) => one(EV::Float(as_int(a) as f32)),
        (U::Floor, EV::Float(f)) => one(EV::Float(f.floor())),
        (U::Ceiling, EV::Float(f)) => one(EV::Float(f.ceil())),
        (U::Int, EV::Float(f)) => one(EV::Int(f.trunc() as i32)),
        (U::Float, EV::Float(f)) => one(EV::Float(*f)),
        (U::Count, EV::List(l)) => one(EV::Int(l.items.len() as i32)),
        (U::Value, EV::List(l)) => one(EV::Int(l.maxv())),
        (U::LMin | U::LMax, EV::List(l)) => {
            if l.items.is_empty() {
                return one(EV::List(LV::empty()));
            }
            // which of several items with the extreme value is returned is not specified: every
            // one of them is an acceptable answer
            let v = if u == U::LMin { l.minv() } else { l.maxv() };
            Ok(l.items.iter().filter(|i| i.0 == v).map(|i| EV::List(LV::of([*i].into_iter().collect()))).collect())
        }
        (U::All, EV::List(l)) => one(EV::List(LV::of(all_of(&l.origins)))),
        (U::Invert, EV::List(l)) => one(EV::List(LV::of(all_of(&l.origins).difference(&l.items).cloned().collect()))),
        (U::From(name), EV::Int(n)) => {
            let (l, items) = LISTS.iter().find(|(l, _)| *l == name).ok_or(Stop::Ill)?;
            match items.iter().find(|i| i.1 == *n) {
                Some(it) => one(EV::List(LV::of([(*n, *l, it.0)].into_iter().collect()))),
                None => one(EV::List(LV::empty())),
            }
        }
        _ => Err(Stop::Ill),
    }
}

fn range1(l: &EV, lo: &EV, hi: &EV) -> Result<EV, Stop> {
    let EV::List(l) = l else { return Err(Stop::Ill) };
    let mut minv = 0;
    let mut maxv = i32::MAX;
    match lo {
        EV::Int(i) => minv = *i,
        EV::List(m) => {
            if !m.items.is_empty() {
                minv = m.minv()
            }
        }
        _ => return Err(Stop::Ill),
    }
    match hi {
        EV::Int(i) => maxv = *i,
        EV::List(m) => {
            if !m.items.is_empty() {
                maxv = m.maxv()
            }
        }
        _ => return Err(Stop::Ill),
    }
    if l.items.is_empty() {
        return Ok(EV::List(LV::empty()));
    }
    let items: BTreeSet<_> = l.items.iter().filter(|i| i.0 >= minv && i.0 <= maxv).cloned().collect();
    Ok(EV::List(LV { items, origins: l.origins.clone() }.norm()))
}

fn dedup(mut v: Vec<EV>) -> Vec<EV> {
    let mut out: Vec<EV> = vec![];
    for x in v.drain(..) {
        if !out.contains(&x) {
            out.push(x);
        }
    }
    out
}

/// every value the rules allow for `x` (more than one only below LIST_MIN / LIST_MAX of tied items)
pub fn eval(x: &X) -> Result<Vec<EV>, Stop> {
    Ok(match x {
        X::Int(i) => vec![EV::Int(*i)],
        X::Float(f) => vec![EV::Float(*f)],
        X::Bool(b) => vec![EV::Bool(*b)],
        X::Str(s) => vec![EV::Str(s.to_string())],
        X::Var(n) => vec![var_value(n).ok_or(Stop::Ill)?],
        X::Item(n) => vec![EV::List(LV::of([item(n).ok_or(Stop::Ill)?].into_iter().collect()))],
        X::Lit(names) => {
            let mut set = BTreeSet::new();
            for n in names {
                set.insert(item(n).ok_or(Stop::Ill)?);
            }
            vec![EV::List(LV::of(set))]
        }
        X::Un(u, a) => {
            let mut out = vec![];
            for v in eval(a)? {
                out.extend(un1(*u, &v)?);
            }
            dedup(out)
        }
        X::Bin(a, op, b) => {
            let (va, vb) = (eval(a)?, eval(b)?);
            let mut out = vec![];
            for p in &va {
                for q in &vb {
                    out.push(bin1(*op, p, q)?);
                }
            }
            dedup(out)
        }
        X::Range(l, a, b) => {
            let (vl, va, vb) = (eval(l)?, eval(a)?, eval(b)?);
            let mut out = vec![];
            for p in &vl {
                for q in &va {
                    for r in &vb {
                        out.push(range1(p, q, r)?);
                    }
                }
            }
            dedup(out)
        }
    })
}

/// E8: storing into a global that holds a list: an empty new value takes over the old value's
/// origin names (so LIST_ALL of the variable keeps working); otherwise the value is stored as is
pub fn store_over(old: &EV, new: &EV) -> EV {
    match (old, new) {
        (EV::List(o), EV::List(n)) if n.items.is_empty() => EV::List(LV { items: BTreeSet::new(), origins: o.origins.clone() }),
        _ => new.clone(),
    }
}

pub fn all_list(v: &EV) -> Option<EV> {
    un1(U::All, v).ok().map(|mut v| v.remove(0))
}
pub fn invert_list(v: &EV) -> Option<EV> {
    un1(U::Invert, v).ok().map(|mut v| v.remove(0))
}

pub fn full_atoms() -> Vec<X> {
    vec![
        X::Int(0),
        X::Int(1),
        X::Int(2),
        X::Int(3),
        X::Int(7),
        X::Int(-1),
        X::Int(-7),
        X::Var("vi"),
        X::Float(0.5),
        X::Float(1.5),
        X::Float(2.0),
        X::Float(-0.25),
        X::Var("vf"),
        X::Bool(true),
        X::Bool(false),
        X::Var("vb"),
        X::Str(""),
        X::Str("a"),
        X::Str("ab"),
        X::Str("1"),
        X::Var("vs"),
        X::Lit(vec![]),
        X::Lit(vec!["a1"]),
        X::Item("a2"),
        X::Lit(vec!["a1", "b1"]),
        X::Lit(vec!["b1", "a1"]),
        X::Lit(vec!["a1", "a3"]),
        X::Lit(vec!["a2", "b2", "c1"]),
        X::Lit(vec!["b3", "d2"]),
        X::Lit(vec!["D.d4"]),
        X::Item("B.b2"),
        X::Var("A"),
        X::Var("B"),
        X::Var("C"),
        X::Var("D"),
        X::Var("vl"),
        X::Var("ve"),
    ]
}

pub fn small_atoms() -> Vec<X> {
    vec![
        X::Int(0),
        X::Int(2),
        X::Int(7),
        X::Int(-1),
        X::Float(1.5),
        X::Bool(true),
        X::Str("a"),
        X::Str("1"),
        X::Lit(vec![]),
        X::Lit(vec!["a1", "b1"]),
        X::Lit(vec!["a2", "b2", "c1"]),
        X::Item("a2"),
        X::Var("C"),
        X::Var("B"),
    ]
}
