//! `inkgen`: bounded exhaustive program families over the harness AST. A family is a skeleton
//! with k slots; each slot has a finite, explicitly listed alphabet ordered simplest-first; the
//! family is the full cross product. `count` and `nth` are exact (mixed-radix decoding), so a run
//! covers 0..count, shards are index ranges and a violation is replayed from (family, k, i).
use super::ast::*;

fn t(s: &str) -> Part {
    Part::Text(s.into())
}
fn p(e: Expr) -> Part {
    Part::Print(e)
}
fn x() -> Expr {
    Expr::var("x")
}
fn xplus(n: i32) -> Stmt {
    Stmt::set("x", Expr::bin(x(), BinOp::Add, Expr::Int(n)))
}
fn line(parts: Vec<Part>) -> Stmt {
    Stmt::parts(parts)
}

/// names of the slot items (index = alphabet position); `i` = slot index for unique labels
pub const ITEM_NAMES: &[&str] = &[
    "text", "asg", "print", "glue-end", "glue-start", "tag", "cond-inline", "seq", "cycle", "once", "if-block", "fcall-value", "fcall-text", "fstmt-text", "tunnel", "temp", "string", "choice-basic", "choice-bracket", "choice-label", "choice-cond", "choice-fallback", "choice-nested", "thread", "count-knot", "turns-since", "choice-count", "divert-k2-back", "fcall-nested", "tag-alone", "line-divert", "choice-inline-divert", "seq-block", "tunnel-onwards", "divert-args", "silent-pingpong", "cond-inline-spaces", "line-divert-tight", "choice-bracket-tight",
];

pub fn item(a: usize, i: usize) -> Vec<Stmt> {
    let lab = |s: &str| format!("{s}{i}");
    match ITEM_NAMES[a] {
        "text" => vec![Stmt::line(&format!("Plain {i}."))],
        "asg" => vec![xplus(1)],
        "print" => vec![line(vec![t("Value "), p(x()), t(".")])],
        "glue-end" => vec![line(vec![t("Open "), p(x()), t(" "), Part::Glue])],
        "glue-start" => vec![line(vec![Part::Glue, t(" joined "), p(x()), t(".")])],
        "tag" => vec![Stmt::Line { parts: vec![t("Tagged.")], tags: vec![format!("tg{i}")], divert: None }],
        "cond-inline" => vec![line(vec![Part::Cond(Expr::bin(x(), BinOp::Gt, Expr::Int(1)), vec![t("Big")], vec![t("Small")]), t(" x.")])],
        "seq" => vec![line(vec![Part::Seq(SeqKind::Stopping, vec!["first".into(), "second".into(), "third".into()]), t(" time.")])],
        "cycle" => vec![line(vec![Part::Seq(SeqKind::Cycle, vec!["tick".into(), "tock".into()]), t(" cycle.")])],
        "once" => vec![line(vec![t("Once "), Part::Seq(SeqKind::Once, vec!["alpha".into(), "beta".into()]), t(" end.")])],
        "if-block" => vec![Stmt::If {
            branches: vec![(Expr::bin(x(), BinOp::Gt, Expr::Int(0)), vec![Stmt::line("Positive branch."), xplus(100)])],
            else_: Some(vec![Stmt::line("Zero branch.")]),
        }],
        "fcall-value" => vec![line(vec![t("Call "), p(Expr::Call("fval".into(), vec![x()])), t(".")])],
        "fcall-text" => vec![line(vec![t("Says "), p(Expr::Call("ftext".into(), vec![])), t(" ok.")])],
        "fstmt-text" => vec![Stmt::CallStmt(Expr::Call("ftalk".into(), vec![]))],
        // the first text of the outer function comes from a nested call, then the outer goes on
        "fcall-nested" => vec![line(vec![p(Expr::Call("fouter".into(), vec![]))])],
        "tunnel" => vec![Stmt::Tunnel("tun".into())],
        // a tag on a line of its own belongs to the next line that has text (T2)
        "tag-alone" => vec![Stmt::Line { parts: vec![], tags: vec![format!("solo{i}")], divert: None }],
        // text and divert on one line: no line end between the text and what the target prints (T1)
        "line-divert" => vec![
            Stmt::Line { parts: vec![t("Going on "), p(x()), t(" ")], tags: vec![], divert: Some(Target::Label(lab("hop"))) },
            Stmt::Weave(Weave { choices: vec![], gather: Some(Gather { label: Some(lab("hop")), parts: vec![t("landed "), p(Expr::Count(lab("hop"))), t(".")] }) }),
        ],
        // W2: offered = start + bracketed, printed = start + end, joined exactly as written
        "choice-bracket-tight" => vec![Stmt::Weave(Weave {
            choices: vec![
                Choice { sticky: false, label: None, conds: vec![], start: vec![t("Hel")], only: vec![t("lo")], end: vec![t("p me")], fallback: false, body: vec![] },
                Choice { sticky: false, label: None, conds: vec![], start: vec![t("X")], only: vec![], end: vec![t("Y")], fallback: false, body: vec![] },
                Choice { sticky: true, label: None, conds: vec![], start: vec![t("\"What?")], only: vec![t("!\"")], end: vec![t("\" I said.")], fallback: false, body: vec![] },
            ],
            gather: Some(Gather { label: None, parts: vec![t("Tight done.")] }),
        })],
        // blanks inside the braces of an inline conditional are part of the branch texts (L1b)
        "cond-inline-spaces" => vec![line(vec![t("Lift"), Part::Cond(Expr::bin(x(), BinOp::Gt, Expr::Int(0)), vec![t(" up high ")], vec![t(" a bit ")]), t("and stop "), Part::Cond(Expr::bin(x(), BinOp::Gt, Expr::Int(0)), vec![t("now ")], vec![]), t("here.")])],
        // no blank typed before the arrow: the text still ends in one (T1b)
        "line-divert-tight" => vec![
            Stmt::Line { parts: vec![t("Tight "), p(x()), t(",")], tags: vec![], divert: Some(Target::Label(lab("hopt"))) },
            Stmt::Weave(Weave { choices: vec![], gather: Some(Gather { label: Some(lab("hopt")), parts: vec![t("\"landed\" "), p(Expr::Count(lab("hopt"))), t(".")] }) }),
        ],
        // the divert is written on the choice line: the choice's text runs on into the target (W2b)
        "choice-inline-divert" => vec![Stmt::Weave(Weave {
            choices: vec![
                // (bracketed form calibrated by choices/fallback-choice; the plain form `* text -> k` by the
                // reference JSON of TheIntercept line 713: start text with its trailing space, then
                // the divert, no line end)
                Choice { sticky: false, label: None, conds: vec![], start: vec![t("go on")], only: vec![], end: vec![], fallback: false, body: vec![Stmt::InlineDivert(Target::Label(lab("ihop")))] },
                Choice { sticky: false, label: None, conds: vec![], start: vec![t("Hello ")], only: vec![t("there")], end: vec![t("again.")], fallback: false, body: vec![Stmt::InlineDivert(Target::Label(lab("ihop")))] },
                Choice { sticky: false, label: None, conds: vec![], start: vec![], only: vec![t("just go")], end: vec![], fallback: false, body: vec![Stmt::InlineDivert(Target::Label(lab("ihop")))] },
                Choice { sticky: true, label: None, conds: vec![], start: vec![t("wait here")], only: vec![], end: vec![], fallback: false, body: vec![Stmt::line("Waited.")] },
            ],
            gather: Some(Gather { label: Some(lab("ihop")), parts: vec![t("Landed "), p(x()), t(".")] }),
        })],
        // block-form sequence with a glued and a two-line element (L3b)
        "seq-block" => vec![Stmt::SeqBlock(
            SeqKind::Stopping,
            vec![vec![Stmt::line("Block first.")], vec![line(vec![Part::Glue, t(" block second "), p(x()), t(".")]), Stmt::line("More second.")], vec![Stmt::line("Block last."), xplus(3)]],
        )],
        // `->-> target`: the tunnel returns to a label instead of to its caller (F1b); knot in extra_knots
        "tunnel-onwards" => vec![
            Stmt::Tunnel(lab("tunto")),
            Stmt::line("Skipped by the override."),
            Stmt::Weave(Weave { choices: vec![], gather: Some(Gather { label: Some(lab("tb")), parts: vec![t("Back via override "), p(x()), t(".")] }) }),
        ],
        // after a line end, two knots are entered three times each without printing anything, and
        // the silent stretch ends at a choice point: every entry counts (K1), whatever the engine
        // did while it looked ahead; knots in extra_knots
        "silent-pingpong" => vec![
            Stmt::line(&format!("Before ping {i}.")),
            Stmt::set("y", Expr::Int(0)),
            Stmt::Divert(Target::Knot(lab("ping"))),
            Stmt::Weave(Weave { choices: vec![], gather: Some(Gather { label: Some(lab("pp")), parts: vec![] }) }),
            Stmt::Weave(Weave {
                choices: vec![Choice {
                    sticky: true,
                    label: None,
                    conds: vec![],
                    start: vec![],
                    only: vec![t("see counts")],
                    end: vec![],
                    fallback: false,
                    body: vec![line(vec![t("Counts "), p(Expr::Count(lab("ping"))), t(" "), p(Expr::Count(lab("pong"))), t(" "), p(Expr::var("y")), t(".")])],
                }],
                gather: Some(Gather { label: None, parts: vec![t("After counts.")] }),
            }),
        ],
        // divert with arguments (K1b); knot in extra_knots
        "divert-args" => vec![
            Stmt::Divert(Target::KnotArgs(lab("kargs"), vec![x(), Expr::Int(2)])),
            Stmt::Weave(Weave { choices: vec![], gather: Some(Gather { label: Some(lab("ka")), parts: vec![t("After args "), p(Expr::Count(lab("kargs"))), t(".")] }) }),
        ],
        "temp" => vec![
            Stmt::Assign { name: lab("tmp"), expr: Expr::bin(x(), BinOp::Mul, Expr::Int(2)), kind: AssignKind::Set, temp_decl: true },
            line(vec![t("Temp "), p(Expr::var(&lab("tmp"))), t(".")]),
        ],
        "string" => vec![Stmt::set("s", Expr::bin(Expr::var("s"), BinOp::Add, Expr::Str("z".into()))), line(vec![t("Str "), p(Expr::var("s")), t(".")])],
        "choice-basic" => vec![Stmt::Weave(Weave {
            choices: vec![
                Choice { sticky: false, label: None, conds: vec![], start: vec![t("pick")], only: vec![], end: vec![], fallback: false, body: vec![Stmt::line("Picked."), xplus(10)] },
                Choice { sticky: true, label: None, conds: vec![], start: vec![t("stay")], only: vec![], end: vec![], fallback: false, body: vec![Stmt::line("Stayed.")] },
            ],
            gather: Some(Gather { label: None, parts: vec![t("Gathered "), p(x()), t(".")] }),
        })],
        "choice-bracket" => vec![Stmt::Weave(Weave {
            choices: vec![
                Choice { sticky: false, label: None, conds: vec![], start: vec![t("Hello ")], only: vec![t("there")], end: vec![t("back")], fallback: false, body: vec![xplus(1)] },
                Choice { sticky: true, label: None, conds: vec![], start: vec![], only: vec![t("silent")], end: vec![], fallback: false, body: vec![Stmt::line("After silent.")] },
            ],
            gather: Some(Gather { label: None, parts: vec![t("Done bracket.")] }),
        })],
        "choice-label" => vec![Stmt::Weave(Weave {
            choices: vec![
                Choice { sticky: false, label: Some(lab("lab")), conds: vec![], start: vec![t("labelled")], only: vec![], end: vec![], fallback: false, body: vec![line(vec![t("Label count "), p(Expr::Count(lab("lab"))), t(".")])] },
                Choice { sticky: true, label: None, conds: vec![], start: vec![t("other")], only: vec![], end: vec![], fallback: false, body: vec![line(vec![t("Label still "), p(Expr::Count(lab("lab"))), t(".")])] },
            ],
            gather: Some(Gather { label: Some(lab("gat")), parts: vec![t("Gather count "), p(Expr::Count(lab("gat"))), t(".")] }),
        })],
        "choice-cond" => vec![Stmt::Weave(Weave {
            choices: vec![
                Choice { sticky: false, label: None, conds: vec![Expr::bin(x(), BinOp::Gt, Expr::Int(0))], start: vec![t("needs x")], only: vec![], end: vec![], fallback: false, body: vec![Stmt::line("Had x.")] },
                Choice { sticky: false, label: None, conds: vec![Expr::bin(x(), BinOp::Eq, Expr::Int(0))], start: vec![t("needs zero")], only: vec![], end: vec![], fallback: false, body: vec![xplus(5)] },
                Choice { sticky: true, label: None, conds: vec![], start: vec![t("always")], only: vec![], end: vec![], fallback: false, body: vec![] },
            ],
            gather: Some(Gather { label: None, parts: vec![t("Cond done "), p(x()), t(".")] }),
        })],
        "choice-fallback" => vec![Stmt::Weave(Weave {
            choices: vec![
                Choice { sticky: false, label: None, conds: vec![Expr::bin(x(), BinOp::Gt, Expr::Int(0))], start: vec![t("only with x")], only: vec![], end: vec![], fallback: false, body: vec![Stmt::line("Visible taken.")] },
                // sticky, so that a second pass (loop families) still has something to follow
                Choice { sticky: true, label: None, conds: vec![], start: vec![], only: vec![], end: vec![], fallback: true, body: vec![Stmt::line("Fell through."), xplus(7)] },
            ],
            gather: Some(Gather { label: None, parts: vec![t("Past fallback.")] }),
        })],
        "choice-nested" => vec![Stmt::Weave(Weave {
            choices: vec![
                Choice {
                    sticky: false,
                    label: None,
                    conds: vec![],
                    start: vec![t("outer")],
                    only: vec![],
                    end: vec![],
                    fallback: false,
                    body: vec![
                        Stmt::line("In outer."),
                        Stmt::Weave(Weave {
                            choices: vec![
                                Choice { sticky: false, label: None, conds: vec![], start: vec![t("inner one")], only: vec![], end: vec![], fallback: false, body: vec![xplus(1)] },
                                Choice { sticky: false, label: None, conds: vec![], start: vec![t("inner two")], only: vec![], end: vec![], fallback: false, body: vec![Stmt::line("Two.")] },
                            ],
                            gather: Some(Gather { label: None, parts: vec![t("Inner gather.")] }),
                        }),
                        Stmt::line("After inner."),
                    ],
                },
                Choice { sticky: true, label: None, conds: vec![], start: vec![t("flat")], only: vec![], end: vec![], fallback: false, body: vec![] },
            ],
            gather: Some(Gather { label: None, parts: vec![t("Outer gather "), p(x()), t(".")] }),
        })],
        "thread" => vec![
            Stmt::Thread("thr".into()),
            Stmt::Weave(Weave {
                choices: vec![Choice { sticky: true, label: None, conds: vec![], start: vec![t("own choice")], only: vec![], end: vec![], fallback: false, body: vec![Stmt::line("Own.")] }],
                gather: Some(Gather { label: None, parts: vec![t("Joined.")] }),
            }),
        ],
        "count-knot" => vec![line(vec![t("Counts "), p(Expr::Count("main".into())), t(" "), p(Expr::Count("k2".into())), t(" "), p(Expr::Count("tun".into())), t(".")])],
        "turns-since" => vec![line(vec![t("Turns "), p(Expr::TurnsSince("main".into())), t(" "), p(Expr::TurnsSince("k2".into())), t(".")])],
        "choice-count" => vec![Stmt::Weave(Weave {
            choices: vec![
                Choice { sticky: true, label: None, conds: vec![], start: vec![t("cc "), p(Expr::ChoiceCount)], only: vec![], end: vec![], fallback: false, body: vec![] },
                Choice { sticky: true, label: None, conds: vec![], start: vec![t("cc2 "), p(Expr::ChoiceCount)], only: vec![], end: vec![], fallback: false, body: vec![] },
            ],
            gather: Some(Gather { label: None, parts: vec![t("Counted.")] }),
        })],
        "divert-k2-back" => vec![Stmt::If { branches: vec![(Expr::bin(Expr::Count("k2".into()), BinOp::Lt, Expr::Int(1)), vec![Stmt::Divert(Target::Knot("k2".into()))])], else_: None }],
        _ => vec![],
    }
}

/// knots that belong to one slot item (their targets are labels of that slot, so they exist only
/// in programs that use the item)
pub fn extra_knots(a: usize, i: usize) -> Vec<Knot> {
    let lab = |s: &str| format!("{s}{i}");
    match ITEM_NAMES[a] {
        "tunnel-onwards" => vec![Knot { name: lab("tunto"), params: vec![], is_function: false, body: vec![line(vec![t("In tunto "), p(x()), t(".")]), xplus(1), Stmt::TunnelReturnTo(Target::LabelIn("main".into(), lab("tb")))], stitches: vec![] }],
        "silent-pingpong" => vec![
            Knot { name: lab("ping"), params: vec![], is_function: false, body: vec![Stmt::set("y", Expr::bin(Expr::var("y"), BinOp::Add, Expr::Int(1))), Stmt::Divert(Target::Knot(lab("pong")))], stitches: vec![] },
            Knot {
                name: lab("pong"),
                params: vec![],
                is_function: false,
                body: vec![
                    Stmt::If { branches: vec![(Expr::bin(Expr::var("y"), BinOp::Lt, Expr::Int(3)), vec![Stmt::Divert(Target::Knot(lab("ping")))])], else_: None },
                    Stmt::Divert(Target::LabelIn("main".into(), lab("pp"))),
                ],
                stitches: vec![],
            },
        ],
        "divert-args" => vec![Knot {
            name: lab("kargs"),
            params: vec!["pa".into(), "pb".into()],
            is_function: false,
            body: vec![line(vec![t("Args "), p(Expr::var("pa")), t(" "), p(Expr::var("pb")), t(".")]), Stmt::Divert(Target::LabelIn("main".into(), lab("ka")))],
            stitches: vec![],
        }],
        _ => vec![],
    }
}

/// segment family: header + main knot with k slots + tail knots
pub fn seg_count(k: usize, a: usize) -> usize {
    a.pow(k as u32)
}

pub fn seg_nth(k: usize, a: usize, mut idx: usize) -> (String, Program) {
    let mut body = vec![];
    let mut extra: Vec<Knot> = vec![];
    let mut name = String::from("gen");
    for slot in 0..k {
        let ai = idx % a;
        idx /= a;
        name.push('-');
        name.push_str(ITEM_NAMES[ai]);
        body.extend(item(ai, slot));
        extra.extend(extra_knots(ai, slot));
    }
    body.push(Stmt::Divert(Target::Knot("fin".into())));
    let mut prog = Program {
        externals: vec![],
        globals: vec![("x".into(), Expr::Int(0)), ("y".into(), Expr::Int(0)), ("s".into(), Expr::Str("".into()))],
        root: vec![Stmt::Divert(Target::Knot("main".into()))],
        knots: vec![
            Knot { name: "main".into(), params: vec![], is_function: false, body, stitches: vec![] },
            Knot {
                name: "fin".into(),
                params: vec![],
                is_function: false,
                body: vec![line(vec![t("Final "), p(x()), t(" "), p(Expr::var("y")), t(" "), p(Expr::var("s")), t(".")]), Stmt::Divert(Target::End)],
                stitches: vec![],
            },
            Knot { name: "k2".into(), params: vec![], is_function: false, body: vec![line(vec![t("In k2 "), p(Expr::Count("k2".into())), t(".")]), xplus(1000), Stmt::Divert(Target::Knot("main".into()))], stitches: vec![] },
            Knot { name: "tun".into(), params: vec![], is_function: false, body: vec![xplus(100), line(vec![t("In tunnel "), p(x()), t(".")]), Stmt::TunnelReturn], stitches: vec![] },
            Knot { name: "fval".into(), params: vec!["v".into()], is_function: true, body: vec![Stmt::Return(Some(Expr::bin(Expr::var("v"), BinOp::Add, Expr::Int(1))))], stitches: vec![] },
            Knot { name: "ftext".into(), params: vec![], is_function: true, body: vec![Stmt::line("spoken")], stitches: vec![] },
            Knot { name: "fouter".into(), params: vec![], is_function: true, body: vec![line(vec![p(Expr::Call("ftext".into(), vec![]))]), line(vec![t("Outer second "), p(x()), t(".")])], stitches: vec![] },
            Knot {
                name: "ftalk".into(),
                params: vec![],
                is_function: true,
                body: vec![Stmt::line("Talk one."), Stmt::set("y", Expr::bin(Expr::var("y"), BinOp::Add, Expr::Int(1))), line(vec![t("Talk two "), p(Expr::var("y")), t(".")])],
                stitches: vec![],
            },
            Knot {
                name: "thr".into(),
                params: vec![],
                is_function: false,
                body: vec![
                    Stmt::line("Thread text."),
                    Stmt::Weave(Weave {
                        choices: vec![Choice { sticky: false, label: None, conds: vec![], start: vec![t("thread choice")], only: vec![], end: vec![], fallback: false, body: vec![Stmt::line("Thread chosen."), xplus(500), Stmt::Divert(Target::Knot("fin".into()))] }],
                        gather: None,
                    }),
                ],
                stitches: vec![],
            },
        ],
    };
    prog.knots.extend(extra);
    (name, prog)
}

fn sticky(text: &str, body: Vec<Stmt>) -> Choice {
    Choice { sticky: true, label: None, conds: vec![], start: vec![], only: vec![t(text)], end: vec![], fallback: false, body }
}
fn once(text: &str, body: Vec<Stmt>) -> Choice {
    Choice { sticky: false, label: None, conds: vec![], start: vec![], only: vec![t(text)], end: vec![], fallback: false, body }
}

/// loop family: the main knot is re-entered through a sticky choice, so sequences advance,
/// once-only choices exhaust, counts grow and K1 (no recount on self-divert) is exercised
pub fn loop_nth(k: usize, a: usize, idx: usize) -> (String, Program) {
    let (name, mut prog) = seg_nth(k, a, idx);
    let main = &mut prog.knots[0];
    main.body.pop(); // the trailing `-> fin`
    let mut body = vec![line(vec![t("Hub "), p(Expr::Count("main".into())), t(" "), p(x()), t(".")])];
    body.append(&mut main.body);
    body.push(Stmt::Weave(Weave {
        choices: vec![sticky("again", vec![Stmt::Divert(Target::Knot("main".into()))]), once("via k2", vec![Stmt::Divert(Target::Knot("k2".into()))]), sticky("leave", vec![Stmt::Divert(Target::Knot("fin".into()))])],
        gather: None,
    }));
    main.body = body;
    (name.replacen("gen", "loop", 1), prog)
}

/// labels (of gathers and choices) defined anywhere in `stmts`
fn labels_of(stmts: &[Stmt]) -> Vec<String> {
    let mut out = vec![];
    for s in stmts {
        match s {
            Stmt::Weave(w) => {
                if let Some(l) = w.gather.as_ref().and_then(|g| g.label.clone()) {
                    out.push(l);
                }
                for c in &w.choices {
                    out.extend(c.label.clone());
                    out.extend(labels_of(&c.body));
                }
            }
            Stmt::If { branches, else_ } => {
                for (_, b) in branches {
                    out.extend(labels_of(b));
                }
                if let Some(e) = else_ {
                    out.extend(labels_of(e));
                }
            }
            Stmt::SeqBlock(_, elems) => {
                for e in elems {
                    out.extend(labels_of(e));
                }
            }
            _ => {}
        }
    }
    out
}

/// stitch family: a knot without own content and two stitches; slot items sit in the stitches,
/// flow moves between stitches and back into the knot from outside
pub fn stitch_nth(k: usize, a: usize, idx: usize) -> (String, Program) {
    let (name, mut prog) = seg_nth(k, a, idx);
    let main = &mut prog.knots[0];
    main.body.pop();
    let items: Vec<Stmt> = std::mem::take(&mut main.body);
    let half = items.len() / 2;
    let (first, second) = items.split_at(half);
    let cnt = |s: &str| p(Expr::Count(s.into()));
    let mut a_body = vec![line(vec![t("Stitch a "), cnt("main"), t(" "), cnt("main.a"), t(" "), cnt("main.b"), t(".")])];
    a_body.extend(first.iter().cloned());
    a_body.push(Stmt::Divert(Target::Stitch("main".into(), "b".into())));
    let mut b_body = vec![line(vec![t("Stitch b "), cnt("main.b"), t(".")])];
    b_body.extend(second.iter().cloned());
    b_body.push(Stmt::Weave(Weave {
        choices: vec![sticky("to a", vec![Stmt::Divert(Target::Stitch("main".into(), "a".into()))]), sticky("to b", vec![Stmt::Divert(Target::Stitch("main".into(), "b".into()))]), once("via k2", vec![Stmt::Divert(Target::Knot("k2".into()))]), sticky("leave", vec![Stmt::Divert(Target::Knot("fin".into()))])],
        gather: None,
    }));
    let in_a: Vec<String> = labels_of(&a_body);
    main.stitches = vec![("a".into(), a_body), ("b".into(), b_body)];
    // labels addressed from other knots now live in a stitch: `main.a.label` / `main.b.label`
    for k in prog.knots.iter_mut().skip(1) {
        for s in k.body.iter_mut() {
            if let Stmt::Divert(Target::LabelIn(p, l)) | Stmt::TunnelReturnTo(Target::LabelIn(p, l)) = s {
                *p = if in_a.contains(l) { "main.a".into() } else { "main.b".into() };
            }
        }
    }
    (name.replacen("gen", "stitch", 1), prog)
}

/// slot alphabet of the external-call family (C12): one item per syntactic position of a call,
/// plus context items that put line ends, glue, choices and Ink functions around it
pub const EXT_ITEMS: &[&str] = &[
    "text", "ext-print", "ext-stmt", "ext-assign", "ext-after-line", "ext-cond", "ext-string", "ext-choice-text", "ext-choice-cond", "ext-choice-body", "ext-in-func", "ext-nested", "ext-twice", "ext-str-ret", "ext-tunnel", "ext-thread", "ext-glue-before", "ext-glue-after", "asg", "choice-basic", "tag", "fstmt-text", "ext-block-cond", "ext-cond-bare",
];

fn e1(a: Expr) -> Expr {
    Expr::Ext("e1".into(), vec![a])
}

pub fn ext_item(a: usize, i: usize) -> Vec<Stmt> {
    let plain = |name: &str| item(ITEM_NAMES.iter().position(|n| *n == name).unwrap(), i);
    let ch = |sticky: bool, conds: Vec<Expr>, start: Vec<Part>, body: Vec<Stmt>| Choice { sticky, label: None, conds, start, only: vec![], end: vec![], fallback: false, body };
    match EXT_ITEMS[a] {
        "ext-print" => vec![line(vec![t("Got "), p(e1(x())), t(".")])],
        "ext-stmt" => vec![Stmt::CallStmt(Expr::Ext("ev_void".into(), vec![x()])), Stmt::line("After stmt.")],
        "ext-assign" => vec![Stmt::set("y", Expr::Ext("e2".into(), vec![x(), Expr::Int(3)])), line(vec![t("Y "), p(Expr::var("y")), t(".")])],
        "ext-after-line" => vec![Stmt::line(&format!("Before {i}.")), Stmt::set("x", e1(x())), line(vec![t("After "), p(x()), t(".")])],
        "ext-cond" => vec![line(vec![Part::Cond(Expr::bin(e1(x()), BinOp::Gt, Expr::Int(105)), vec![t("high")], vec![t("low")]), t(" cond.")])],
        // a call without arguments that IS the whole condition
        "ext-cond-bare" => vec![line(vec![Part::Cond(Expr::Ext("e0".into(), vec![]), vec![t("bare yes")], vec![t("bare no")]), t(" bare.")])],
        "ext-string" => vec![Stmt::set("s", Expr::Interp(vec![t("v"), p(e1(x()))])), line(vec![t("S "), p(Expr::var("s")), t(".")])],
        "ext-choice-text" => vec![Stmt::Weave(Weave {
            choices: vec![ch(true, vec![], vec![t("pick "), p(e1(x()))], vec![Stmt::line("Picked.")]), ch(true, vec![], vec![t("other")], vec![xplus(1)])],
            gather: Some(Gather { label: None, parts: vec![t("G "), p(x()), t(".")] }),
        })],
        "ext-choice-cond" => vec![Stmt::Weave(Weave {
            choices: vec![ch(true, vec![Expr::bin(e1(x()), BinOp::Gt, Expr::Int(0))], vec![t("cpick")], vec![Stmt::line("Cpicked.")]), ch(false, vec![Expr::bin(e1(Expr::Int(1)), BinOp::Lt, Expr::Int(0))], vec![t("never")], vec![])],
            gather: Some(Gather { label: None, parts: vec![t("CG.")] }),
        })],
        "ext-choice-body" => vec![Stmt::Weave(Weave {
            choices: vec![ch(true, vec![], vec![t("body")], vec![Stmt::set("x", e1(x())), line(vec![t("Body "), p(x()), t(".")])]), ch(true, vec![], vec![t("skip")], vec![])],
            gather: Some(Gather { label: None, parts: vec![t("BG "), p(e1(Expr::Int(2))), t(".")] }),
        })],
        "ext-in-func" => vec![line(vec![t("F "), p(Expr::Call("fwrap".into(), vec![x()])), t(".")])],
        "ext-nested" => vec![line(vec![t("N "), p(Expr::Ext("e2".into(), vec![e1(x()), Expr::Int(2)])), t(".")])],
        "ext-twice" => vec![line(vec![t("A "), p(e1(Expr::Int(1))), t(" B "), p(e1(Expr::Int(2))), t(".")])],
        "ext-str-ret" => vec![line(vec![t("Str "), p(Expr::Ext("es_str".into(), vec![x()])), t(".")])],
        "ext-tunnel" => vec![Stmt::Tunnel("etun".into())],
        "ext-thread" => vec![
            Stmt::Thread("ethr".into()),
            Stmt::Weave(Weave { choices: vec![ch(true, vec![], vec![t("own")], vec![Stmt::line("Own.")])], gather: Some(Gather { label: None, parts: vec![t("Joined.")] }) }),
        ],
        "ext-glue-before" => vec![line(vec![t("Open "), Part::Glue]), line(vec![p(e1(x())), t(" closed.")])],
        "ext-glue-after" => vec![line(vec![t("Val "), p(e1(x()))]), line(vec![Part::Glue, t(" joined.")])],
        "ext-block-cond" => vec![Stmt::If { branches: vec![(Expr::bin(e1(x()), BinOp::Gt, Expr::Int(0)), vec![Stmt::line("Yes branch."), Stmt::set("x", e1(Expr::Int(4)))])], else_: Some(vec![Stmt::line("No branch.")]) }],
        other => plain(other),
    }
}

pub fn ext_uses_glue(a: usize) -> bool {
    matches!(EXT_ITEMS[a], "ext-glue-before" | "ext-glue-after")
}

/// external-call family: k slots over EXT_ITEMS; `fallback_fns` adds an Ink function of the same
/// name for every EXTERNAL. Returns (name, program, uses glue)
pub fn ext_nth(k: usize, mut idx: usize, fallback_fns: bool) -> (String, Program, bool) {
    let a = EXT_ITEMS.len();
    let mut body = vec![];
    let mut name = String::from("ext");
    let mut glue = false;
    for slot in 0..k {
        let ai = idx % a;
        idx /= a;
        name.push('-');
        name.push_str(EXT_ITEMS[ai]);
        glue |= ext_uses_glue(ai);
        body.extend(ext_item(ai, slot));
    }
    body.push(Stmt::Divert(Target::Knot("fin".into())));
    let f = |name: &str, params: &[&str], body: Vec<Stmt>| Knot { name: name.into(), params: params.iter().map(|s| s.to_string()).collect(), is_function: true, body, stitches: vec![] };
    let v = |n: &str| Expr::var(n);
    let mut knots = vec![
        Knot { name: "main".into(), params: vec![], is_function: false, body, stitches: vec![] },
        Knot {
            name: "fin".into(),
            params: vec![],
            is_function: false,
            body: vec![line(vec![t("Final "), p(x()), t(" "), p(v("y")), t(" "), p(v("s")), t(" "), p(e1(Expr::Int(9))), t(".")]), Stmt::Divert(Target::End)],
            stitches: vec![],
        },
        Knot { name: "etun".into(), params: vec![], is_function: false, body: vec![line(vec![t("In etun "), p(e1(x())), t(".")]), Stmt::set("x", Expr::bin(x(), BinOp::Add, Expr::Int(1))), Stmt::TunnelReturn], stitches: vec![] },
        Knot {
            name: "ethr".into(),
            params: vec![],
            is_function: false,
            body: vec![
                line(vec![t("Thread "), p(e1(x())), t(".")]),
                Stmt::Weave(Weave {
                    choices: vec![Choice { sticky: true, label: None, conds: vec![], start: vec![t("tchoice")], only: vec![], end: vec![], fallback: false, body: vec![line(vec![t("Tchosen "), p(e1(Expr::Int(3))), t(".")]), Stmt::Divert(Target::Knot("fin".into()))] }],
                    gather: None,
                }),
            ],
            stitches: vec![],
        },
        f("fwrap", &["w"], vec![Stmt::Return(Some(Expr::bin(e1(v("w")), BinOp::Add, Expr::Int(1))))]),
        f("ftalk", &[], vec![Stmt::line("Talk one."), Stmt::set("y", Expr::bin(v("y"), BinOp::Add, Expr::Int(1))), line(vec![t("Talk two "), p(v("y")), t(".")])]),
    ];
    if fallback_fns {
        knots.push(f("e1", &["a"], vec![Stmt::Return(Some(Expr::bin(Expr::Int(1000), BinOp::Add, v("a"))))]));
        knots.push(f("e2", &["a", "b"], vec![Stmt::Return(Some(Expr::bin(Expr::bin(Expr::Int(2000), BinOp::Add, v("a")), BinOp::Add, v("b"))))]));
        knots.push(f("ev_void", &["a"], vec![Stmt::set("y", Expr::bin(v("y"), BinOp::Add, v("a")))]));
        knots.push(f("es_str", &["a"], vec![Stmt::Return(Some(Expr::bin(Expr::Str("fb".into()), BinOp::Add, v("a"))))]));
        knots.push(f("e0", &[], vec![Stmt::Return(Some(Expr::Int(0)))]));
    }
    let prog = Program {
        externals: vec![("e1".into(), vec!["a".into()]), ("e2".into(), vec!["a".into(), "b".into()]), ("ev_void".into(), vec!["a".into()]), ("es_str".into(), vec!["a".into()]), ("e0".into(), vec![])],
        globals: vec![("x".into(), Expr::Int(0)), ("y".into(), Expr::Int(0)), ("s".into(), Expr::Str("".into()))],
        root: vec![Stmt::Divert(Target::Knot("main".into()))],
        knots,
    };
    (name, prog, glue)
}

/// hand-transcribed corpus stories used to calibrate refint against the reference toolchain:
/// (corpus json relative path, the same story as harness AST)
pub fn calibration() -> Vec<(&'static str, Program)> {
    let tl = Stmt::line;
    let knot = |name: &str, body: Vec<Stmt>| Knot { name: name.into(), params: vec![], is_function: false, body, stitches: vec![] };
    let func = |name: &str, params: &[&str], body: Vec<Stmt>| Knot { name: name.into(), params: params.iter().map(|s| s.to_string()).collect(), is_function: true, body, stitches: vec![] };
    let prog = |globals: Vec<(&str, Expr)>, root: Vec<Stmt>, knots: Vec<Knot>| Program { externals: vec![], globals: globals.into_iter().map(|(n, e)| (n.to_string(), e)).collect(), root, knots };
    // choice constructors: (sticky, start, only, end, conds, label, body)
    let ch = |sticky: bool, start: &str, only: &str, end: &str, body: Vec<Stmt>| Choice {
        sticky,
        label: None,
        conds: vec![],
        start: if start.is_empty() { vec![] } else { vec![t(start)] },
        only: if only.is_empty() { vec![] } else { vec![t(only)] },
        end: if end.is_empty() { vec![] } else { vec![t(end)] },
        fallback: false,
        body,
    };
    let weave = |choices: Vec<Choice>, gather: Option<Gather>| Stmt::Weave(Weave { choices, gather });
    let g = |text: &str| Some(Gather { label: None, parts: if text.is_empty() { vec![] } else { vec![t(text)] } });
    let to = |k: &str| Stmt::Divert(Target::Knot(k.into()));
    let end = || Stmt::Divert(Target::End);
    vec![
        ("basictext/twolines.ink.json", prog(vec![], vec![tl("Line."), tl("Other line.")], vec![])),
        ("glue/simple-glue.ink.json", prog(vec![], vec![line(vec![t("Some "), Part::Glue]), line(vec![t("content "), Part::Glue]), tl("with glue.")], vec![])),
        (
            "glue/glue-with-divert.ink.json",
            prog(
                vec![],
                vec![line(vec![t("We hurried home "), Part::Glue]), to("to_savile_row")],
                vec![knot("to_savile_row", vec![tl("to Savile Row"), to("as_fast_as_we_could")]), knot("as_fast_as_we_could", vec![line(vec![Part::Glue, t(" as fast as we could.")]), end()])],
            ),
        ),
        (
            "glue/testbugfix2.ink.json",
            prog(
                vec![],
                vec![line(vec![t("A "), Part::Cond(Expr::Call("f".into(), vec![]), vec![t("B")], vec![]), t(" ")]), tl("X")],
                vec![func("f", &[], vec![Stmt::If { branches: vec![(Expr::Bool(true), vec![Stmt::Return(Some(Expr::Bool(false)))])], else_: None }])],
            ),
        ),
        (
            "glue/left-right-glue-matching.ink.json",
            prog(
                vec![],
                vec![tl("A line."), Stmt::If { branches: vec![(Expr::Call("f".into(), vec![]), vec![tl("Another line.")])], else_: None }],
                vec![func("f", &[], vec![line(vec![Part::Cond(Expr::Bool(false), vec![t("nothing")], vec![])]), Stmt::Return(Some(Expr::Bool(true)))])],
            ),
        ),
        ("choices/mixed-choice.ink.json", prog(vec![], vec![tl("Hello world!"), weave(vec![ch(false, "Hello ", "back!", " right back to you!", vec![tl("Nice to hear from you."), Stmt::Divert(Target::Done)])], None)], vec![])),
        ("choices/suppress-choice.ink.json", prog(vec![], vec![tl("Hello world!"), weave(vec![ch(false, "", "Hello back!", "", vec![tl("Nice to hear from you."), end()])], None)], vec![])),
        (
            "nojson:misc/choice-count.ink.json", // (the corpus has no reference JSON for it: not run)
            prog(
                vec![],
                vec![
                    weave(
                        vec![
                            ch(false, "Option A", "", "", vec![]),
                            ch(false, "Option B", "", "", vec![]),
                            ch(false, "Option C", "", "", vec![]),
                            Choice { conds: vec![Expr::bin(Expr::ChoiceCount, BinOp::Eq, Expr::Int(3))], ..ch(false, "All three available ", "", "", vec![end()]) },
                        ],
                        g(""),
                    ),
                    end(),
                ],
                vec![],
            ),
        ),
        (
            "choices/nested-choice.ink.json",
            prog(
                vec![],
                vec![to("myknot")],
                vec![knot(
                    "myknot",
                    // (a single `-` is a level-1 gather whatever its indentation: `- done sub.` closes
                    // the section that holds only option1; option2 opens the next one)
                    vec![
                        weave(vec![ch(false, "option1", "", "", vec![weave(vec![ch(false, "suboption1", "", "", vec![tl("text suboption1.")]), ch(false, "suboption2", "", "", vec![tl("text suboption2.")])], None)])], g("done sub.")),
                        weave(vec![ch(false, "option2", "", "", vec![tl("text option2.")])], g("")),
                        end(),
                    ],
                )],
            ),
        ),
        (
            "choices/sticky-choice.ink.json",
            prog(
                vec![],
                vec![to("homers_couch")],
                vec![knot(
                    "homers_couch",
                    vec![weave(
                        vec![
                            ch(true, "", "Eat another donut", "", vec![Stmt::Line { parts: vec![t("You eat another donut. ")], tags: vec![], divert: Some(Target::Knot("homers_couch".into())) }]),
                            ch(false, "", "Get off the couch", "", vec![tl("You struggle up off the couch to go and compose epic poetry."), end()]),
                        ],
                        None,
                    )],
                )],
            ),
        ),
        (
            "nojson:misc/nested-choice-parent-sibling.ink.json",
            prog(vec![], vec![to("parent")], {
                let d1 = || Stmt::Divert(Target::Stitch("parent".into(), "done1".into()));
                vec![Knot {
                    name: "parent".into(),
                    params: vec![],
                    is_function: false,
                    body: vec![
                        tl("\"P\""),
                        weave(vec![ch(false, "", "A", "", vec![tl("\"A\""), weave(vec![ch(false, "", "AA", "", vec![d1()]), ch(false, "", "AB", "", vec![d1()])], g("")), d1()]), ch(false, "", "B", "", vec![d1()])], None),
                    ],
                    stitches: vec![("done1".into(), vec![tl("\"D1\""), end()])],
                }]
            }),
        ),
        (
            "conditional/stopping.ink.json",
            prog(
                vec![],
                vec![to("test")],
                vec![knot(
                    "test",
                    vec![line(vec![Part::Seq(SeqKind::Stopping, vec!["I entered the casino.".into(), "I entered the casino again.".into(), "Once more, I went inside.".into()])]), weave(vec![ch(true, "", "Try again", "", vec![Stmt::InlineDivert(Target::Knot("test".into()))])], None)],
                )],
            ),
        ),
        (
            "choices/fallback-choice.ink.json",
            prog(
                vec![],
                vec![to("find_help")],
                vec![knot(
                    "find_help",
                    vec![
                        tl("You search desperately for a friendly face in the crowd."),
                        weave(
                            vec![
                                ch(false, "The woman in the hat", "?", " pushes you roughly aside.", vec![Stmt::InlineDivert(Target::Knot("find_help".into()))]),
                                ch(false, "The man with the briefcase", "?", " looks disgusted as you stumble past him.", vec![Stmt::InlineDivert(Target::Knot("find_help".into()))]),
                                Choice { fallback: true, ..ch(false, "", "", "", vec![]) },
                            ],
                            g("But it is too late: you collapse onto the station platform. This is the end."),
                        ),
                        end(),
                    ],
                )],
            ),
        ),
        (
            // (explored to choice depth 2 only: deeper, the knot runs out of choices and content)
            "choices/divert-choice.ink.json",
            prog(
                vec![],
                vec![to("knot")],
                vec![knot(
                    "knot",
                    vec![
                        tl("You see a soldier."),
                        weave(
                            vec![
                                ch(false, "", "Pull a face", "", vec![Stmt::Line { parts: vec![t("You pull a face, and the soldier comes at you! ")], tags: vec![], divert: Some(Target::Label("shove".into())) }]),
                                Choice { label: Some("shove".into()), ..ch(false, "", "Shove the guard aside", " You shove the guard to one side, but he comes back swinging.", vec![]) },
                                Choice { conds: vec![Expr::Count("shove".into())], ..ch(false, "", "Grapple and fight", "", vec![]) },
                            ],
                            g(""),
                        ),
                        to("knot"),
                        end(),
                    ],
                )],
            ),
        ),
        (
            "function/evaluating-function-variablestate-bug.ink.json",
            prog(vec![], vec![tl("Start"), Stmt::Tunnel("tunnel".into()), tl("End"), end()], vec![knot("tunnel", vec![tl("In tunnel."), Stmt::TunnelReturn])]),
        ),
        (
            "knot/param-ints.ink.json",
            prog(
                vec![],
                vec![
                    tl("How much do you give?"),
                    weave(
                        vec![
                            ch(false, "", "$1", "", vec![Stmt::InlineDivert(Target::KnotArgs("give".into(), vec![Expr::Int(1)]))]),
                            ch(false, "", "$2", "", vec![Stmt::InlineDivert(Target::KnotArgs("give".into(), vec![Expr::Int(2)]))]),
                            ch(false, "", "Nothing", "", vec![Stmt::InlineDivert(Target::KnotArgs("give".into(), vec![Expr::Int(0)]))]),
                        ],
                        None,
                    ),
                ],
                vec![Knot { name: "give".into(), params: vec!["amount".into()], is_function: false, body: vec![line(vec![t("You give "), p(Expr::var("amount")), t(" dollars.")]), end()], stitches: vec![] }],
            ),
        ),
        (
            "knot/param-multi.ink.json",
            prog(
                vec![("x", Expr::Int(1)), ("y", Expr::Str("Hmm.".into()))],
                vec![tl("How much do you give?"), weave(vec![ch(false, "", "I don't know", "", vec![Stmt::InlineDivert(Target::KnotArgs("give".into(), vec![x(), Expr::Int(2), Expr::var("y")]))])], None)],
                vec![Knot {
                    name: "give".into(),
                    params: vec!["a".into(), "b".into(), "c".into()],
                    is_function: false,
                    body: vec![line(vec![t("You give "), p(Expr::var("a")), t(" or "), p(Expr::var("b")), t(" dollars. "), p(Expr::var("y"))]), end()],
                    stitches: vec![],
                }],
            ),
        ),
        (
            "tunnels/tunnel-onwards-divert-override.ink.json",
            prog(
                vec![],
                vec![Stmt::Tunnel("A".into()), tl("We will never return to here!")],
                vec![knot("A", vec![tl("This is A"), Stmt::TunnelReturnTo(Target::Knot("B".into()))]), knot("B", vec![tl("Now in B."), end()])],
            ),
        ),
        (
            "conditional/multiline-divert.ink.json",
            prog(
                vec![],
                vec![to("test")],
                vec![
                    knot(
                        "test",
                        vec![
                            Stmt::SeqBlock(
                                SeqKind::Stopping,
                                vec![
                                    vec![tl("At the table, I drew a card. Ace of Hearts.")],
                                    vec![line(vec![Part::Glue, t(" 2 of Diamonds.")]), tl("\"Should I hit you again,\" the croupier asks.")],
                                    vec![line(vec![Part::Glue, t(" King of Spades.")]), to("he_crowed")],
                                ],
                            ),
                            weave(vec![ch(true, "", "Draw a card", " I drew a card.", vec![Stmt::InlineDivert(Target::Knot("test".into()))])], None),
                        ],
                    ),
                    knot("he_crowed", vec![tl("\"You lose,\" he crowed."), end()]),
                ],
            ),
        ),
        (
            "conditional/cycle.ink.json",
            prog(
                vec![],
                vec![to("test")],
                vec![knot("test", vec![line(vec![Part::Seq(SeqKind::Cycle, vec!["I held my breath.".into(), "I waited impatiently.".into(), "I paused.".into()])]), weave(vec![ch(true, "", "Try again", "", vec![Stmt::InlineDivert(Target::Knot("test".into()))])], None)])],
            ),
        ),
        (
            "conditional/once.ink.json",
            prog(
                vec![],
                vec![to("test")],
                vec![knot("test", vec![line(vec![Part::Seq(SeqKind::Once, vec!["Would my luck hold?".into(), "Could I win the hand?".into()])]), weave(vec![ch(true, "", "Try again", "", vec![Stmt::InlineDivert(Target::Knot("test".into()))])], None)])],
            ),
        ),
        (
            "conditional/condtext.ink.json",
            prog(
                vec![],
                vec![tl("\"We are going on a trip,\" said Monsieur Fogg."), weave(vec![ch(false, "", "The wager.", "", vec![Stmt::InlineDivert(Target::Knot("know_about_wager".into()))]), ch(false, "", "I was surprised.", "", vec![Stmt::InlineDivert(Target::Knot("i_stared".into()))])], None)],
                vec![
                    knot("know_about_wager", vec![tl("I had heard about the wager."), to("i_stared")]),
                    knot(
                        "i_stared",
                        vec![
                            tl("I stared at Monsieur Fogg."),
                            Stmt::If {
                                branches: vec![(Expr::Count("know_about_wager".into()), vec![line(vec![Part::Glue, t(" \"But surely you are not serious?\" I demanded.")])])],
                                else_: Some(vec![line(vec![Part::Glue, t(" \"But there must be a reason for this trip,\" I observed.")])]),
                            },
                            tl("He said nothing in reply, merely considering his newspaper with as much thoroughness as entomologist considering his latest pinned addition."),
                            end(),
                        ],
                    ),
                ],
            ),
        ),
        (
            "conditional/ifelse.ink.json",
            prog(
                vec![("x", Expr::Int(0)), ("y", Expr::Int(3))],
                vec![
                    Stmt::If {
                        branches: vec![(Expr::bin(x(), BinOp::Gt, Expr::Int(0)), vec![Stmt::set("y", Expr::bin(x(), BinOp::Sub, Expr::Int(1)))])],
                        else_: Some(vec![Stmt::set("y", Expr::bin(x(), BinOp::Add, Expr::Int(1)))]),
                    },
                    Stmt::Line { parts: vec![t("The value is "), p(Expr::var("y")), t(". ")], tags: vec![], divert: Some(Target::End) },
                ],
                vec![],
            ),
        ),
        (
            "variable/varcalc.ink.json",
            prog(
                vec![("knows", Expr::Bool(false)), ("x", Expr::Int(2)), ("y", Expr::Int(3)), ("c", Expr::Int(4)), ("str", Expr::Str("".into()))],
                vec![
                    Stmt::set("knows", Expr::Bool(true)),
                    Stmt::set("x", Expr::bin(Expr::bin(Expr::bin(x(), BinOp::Mul, x()), BinOp::Sub, Expr::bin(Expr::var("y"), BinOp::Mul, Expr::var("y"))), BinOp::Add, Expr::var("c"))),
                    Stmt::set("y", Expr::bin(Expr::bin(Expr::Int(2), BinOp::Mul, x()), BinOp::Mul, Expr::var("y"))),
                    Stmt::set("str", Expr::Str("a".into())),
                    Stmt::Assign { name: "str".into(), expr: Expr::Str("a".into()), kind: AssignKind::Add, temp_decl: false },
                    line(vec![t("The values are "), p(Expr::var("knows")), t(" and "), p(x()), t(" and "), p(Expr::var("y")), t(" and "), p(Expr::var("str")), t(".")]),
                    end(),
                ],
                vec![],
            ),
        ),
        (
            "variable/varstringinc.ink.json",
            prog(
                vec![("v", Expr::Str("".into()))],
                vec![Stmt::set("v", Expr::Str("a".into())), weave(vec![ch(false, "inc", "", "", vec![Stmt::set("v", Expr::bin(Expr::var("v"), BinOp::Add, Expr::Str("b".into()))), line(vec![p(Expr::var("v")), t(".")]), end()])], None)],
                vec![],
            ),
        ),
        (
            "tags/tags.ink.json",
            prog(
                vec![("x", Expr::Int(2))],
                vec![
                    Stmt::Line { parts: vec![], tags: vec!["author: Joe".into()], divert: None },
                    Stmt::Line { parts: vec![], tags: vec!["title: My Great Story".into()], divert: None },
                    tl("This is the content"),
                ],
                vec![],
            ),
        ),
        (
            "choices/conditional-choice.ink.json",
            prog(
                vec![],
                vec![
                    tl("Test conditional choices"),
                    weave(
                        vec![
                            Choice { conds: vec![Expr::Bool(true), Expr::Bool(false)], ..ch(false, "not displayed", "", "", vec![]) },
                            Choice { conds: vec![Expr::Bool(true), Expr::Bool(true), Expr::bin(Expr::Bool(true), BinOp::And, Expr::Bool(true))], ..ch(false, "one", "", "", vec![]) },
                            Choice { conds: vec![Expr::Bool(false)], ..ch(false, "not displayed", "", "", vec![]) },
                            Choice { conds: vec![Expr::Bool(true)], ..ch(false, "two", "", "", vec![]) },
                            Choice { conds: vec![Expr::Bool(true), Expr::Bool(true)], ..ch(false, "three", "", "", vec![]) },
                            Choice { conds: vec![Expr::Bool(true)], ..ch(false, "four", "", "", vec![]) },
                        ],
                        None,
                    ),
                ],
                vec![],
            ),
        ),
        (
            "conditional/ifelse-ext-text2.ink.json",
            prog(
                vec![("x", Expr::Int(2))],
                vec![
                    Stmt::If {
                        branches: vec![(Expr::bin(x(), BinOp::Eq, Expr::Int(0)), vec![tl("This is text 1.")]), (Expr::bin(x(), BinOp::Gt, Expr::Int(0)), vec![tl("This is text 2.")])],
                        else_: Some(vec![tl("This is text 3.")]),
                    },
                    weave(vec![ch(true, "", "The Choice.", "", vec![Stmt::InlineDivert(Target::Knot("to_end".into()))])], None),
                ],
                vec![knot("to_end", vec![Stmt::Line { parts: vec![t("This is the end. ")], tags: vec![], divert: Some(Target::End) }])],
            ),
        ),
        (
            "gather/gather-basic.ink.json",
            prog(
                vec![],
                vec![
                    tl("What's that?\" my master asked."),
                    weave(
                        vec![
                            ch(false, "\"I am somewhat tired", ".\"", ",\" I repeated.", vec![tl("\"Really,\" he responded. \"How deleterious.\"")]),
                            ch(false, "\"Nothing, Monsieur!\"", "", " I replied.", vec![tl("\"Very good, then.\"")]),
                            ch(false, "\"I said, this journey is appalling", ".\"", " and I want no more of it.\"", vec![tl("\"Ah,\" he replied, not unkindly. \"I see you are feeling frustrated. Tomorrow, things will improve.\"")]),
                        ],
                        g("With that Monsieur Fogg left the room."),
                    ),
                    end(),
                ],
                vec![],
            ),
        ),
        (
            "choices/label-scope.ink.json",
            prog(vec![], vec![to("knot")], {
                vec![Knot {
                    name: "knot".into(),
                    params: vec![],
                    is_function: false,
                    body: vec![],
                    stitches: vec![
                        (
                            "stitch_one".into(),
                            vec![
                                weave(vec![ch(false, "an option", "", "", vec![])], Some(Gather { label: Some("gatherpoint".into()), parts: vec![t("Some content.")] })),
                                Stmt::Divert(Target::Stitch("knot".into(), "stitch_two".into())),
                            ],
                        ),
                        ("stitch_two".into(), vec![weave(vec![Choice { conds: vec![Expr::Count("gatherpoint".into())], ..ch(false, "Found gatherpoint", "", "", vec![end()]) }], None)]),
                    ],
                }]
            }),
        ),
        (
            "function/complex-func1.ink.json",
            prog(
                vec![("x", Expr::Int(0)), ("y", Expr::Int(3))],
                vec![Stmt::CallStmt(Expr::Call("derp".into(), vec![Expr::Int(2), Expr::Int(3), Expr::Int(4)])), line(vec![t("The values are "), p(x()), t(" and "), p(Expr::var("y")), t(".")]), end()],
                vec![func(
                    "derp",
                    &["a", "b", "c"],
                    vec![
                        Stmt::set("x", Expr::bin(Expr::var("a"), BinOp::Add, Expr::var("b"))),
                        Stmt::If { branches: vec![(Expr::bin(x(), BinOp::Eq, Expr::Int(5)), vec![Stmt::set("x", Expr::Int(6))])], else_: None },
                        Stmt::set("y", Expr::bin(x(), BinOp::Add, Expr::var("c"))),
                    ],
                )],
            ),
        ),
    ]
}

// ---------------------------------------------------------------------------------------------
// weave-shape family: every small nesting of choices and gathers (labelled, unlabelled, bare,
// missing), one or two weaves in a row, optionally opened by a labelled gather. The items above
// fix one weave shape each; this family enumerates the shapes themselves.

fn sh_choice(sticky: bool, text: &str, body: Vec<Stmt>) -> Choice {
    Choice { sticky, label: None, conds: vec![], start: vec![t(text)], only: vec![], end: vec![], fallback: false, body }
}

const SH_INNER: usize = 5;
/// level-2 weaves (inside a level-1 choice body); `u` makes texts and labels unique
fn sh_inner(v: usize, u: &str) -> Weave {
    let tx = |s: &str| format!("{s} {u}");
    match v {
        0 => Weave { choices: vec![sh_choice(false, &tx("in-a"), vec![Stmt::line(&tx("Inner a."))])], gather: None },
        1 => Weave { choices: vec![sh_choice(false, &tx("in-a"), vec![Stmt::line(&tx("Inner a."))])], gather: Some(Gather { label: None, parts: vec![t(&tx("Inner gather."))] }) },
        2 => Weave {
            choices: vec![sh_choice(false, &tx("in-a"), vec![]), sh_choice(true, &tx("in-b"), vec![xplus(1)])],
            gather: Some(Gather { label: Some(format!("ig{u}")), parts: vec![t("IG "), p(Expr::Count(format!("ig{u}"))), t(&tx("."))] }),
        },
        3 => Weave { choices: vec![sh_choice(false, &tx("in-a"), vec![Stmt::line(&tx("Inner a."))]), sh_choice(true, &tx("in-b"), vec![])], gather: None },
        _ => Weave { choices: vec![sh_choice(false, &tx("in-a"), vec![Stmt::line(&tx("Inner a."))])], gather: Some(Gather { label: None, parts: vec![] }) },
    }
}
fn sh_inner_gathered(v: usize) -> bool {
    matches!(v, 1 | 2 | 4)
}

const SH_BODIES: usize = 16;
/// bodies of a level-1 choice
fn sh_body(b: usize, u: &str) -> Vec<Stmt> {
    let tx = |s: &str| format!("{s} {u}");
    let gathered = [1usize, 2, 4];
    match b {
        0 => vec![],
        1 => vec![Stmt::line(&tx("Body."))],
        2 => vec![xplus(1)],
        3..=7 => vec![Stmt::Weave(sh_inner(b - 3, u))],
        8..=12 => vec![Stmt::line(&tx("Body.")), Stmt::Weave(sh_inner(b - 8, u))],
        _ => {
            let v = gathered[b - 13];
            debug_assert!(sh_inner_gathered(v));
            vec![Stmt::line(&tx("Body.")), Stmt::Weave(sh_inner(v, u)), line(vec![t("After inner "), p(x()), t(&tx("."))])]
        }
    }
}

const SH_SECOND: usize = 4;
fn sh_second(s: usize, u: &str) -> Option<Choice> {
    let u2 = format!("{u}s");
    match s {
        0 => None,
        1 => Some(sh_choice(true, &format!("other {u}"), vec![])),
        2 => Some(sh_choice(true, &format!("other {u}"), vec![Stmt::line(&format!("Other body {u}."))])),
        _ => Some(sh_choice(true, &format!("other {u}"), vec![Stmt::Weave(sh_inner(2, &u2))])),
    }
}

const SH_GATHERS: usize = 3;
fn sh_gather(g: usize, u: &str) -> Gather {
    match g {
        0 => Gather { label: None, parts: vec![t(&format!("Gather {u} ")), p(x()), t(".")] },
        // (the first weave's label is called `loop`: an ordinary name that reads like a keyword)
        1 => {
            let lab = if u == "A" { "loop".to_string() } else { format!("og{u}") };
            Gather { label: Some(lab.clone()), parts: vec![t(&format!("Gather {u} ")), p(Expr::Count(lab)), t(".")] }
        }
        _ => Gather { label: None, parts: vec![] },
    }
}

const SH_PRE: usize = 3;
/// what stands before the weave's choices: nothing, a labelled gather with text, a bare labelled gather
fn sh_pre(pv: usize, u: &str) -> Vec<Stmt> {
    match pv {
        0 => vec![],
        1 => vec![Stmt::Weave(Weave { choices: vec![], gather: Some(Gather { label: Some(format!("pg{u}")), parts: vec![t(&format!("Opened {u} ")), p(Expr::Count(format!("pg{u}"))), t(".")] }) })],
        _ => vec![Stmt::Weave(Weave { choices: vec![], gather: Some(Gather { label: Some(format!("pg{u}")), parts: vec![] }) })],
    }
}

fn sh_outer(pv: usize, b: usize, s: usize, g: usize, u: &str) -> Vec<Stmt> {
    let mut v = sh_pre(pv, u);
    let mut choices = vec![sh_choice(false, &format!("first {u}"), sh_body(b, u))];
    choices.extend(sh_second(s, u));
    v.push(Stmt::Weave(Weave { choices, gather: Some(sh_gather(g, u)) }));
    v
}

/// reduced option sets for the two-weave programs
const SH2_BODIES: &[usize] = &[0, 1, 5, 9];
const SH2_SECOND: &[usize] = &[0, 2];
const SH2_PRE: &[usize] = &[0, 2];

pub fn shape_count(k: usize) -> usize {
    if k == 1 {
        SH_PRE * SH_BODIES * SH_SECOND * SH_GATHERS
    } else {
        let one = SH2_PRE.len() * SH2_BODIES.len() * SH2_SECOND.len() * SH_GATHERS;
        one * one
    }
}

pub fn shape_nth(k: usize, mut idx: usize) -> (String, Program) {
    let mut take = |n: usize| {
        let r = idx % n;
        idx /= n;
        r
    };
    let mut body = vec![Stmt::line("Start.")];
    let mut name = String::from("shape");
    if k == 1 {
        let (pv, b, s, g) = (take(SH_PRE), take(SH_BODIES), take(SH_SECOND), take(SH_GATHERS));
        name.push_str(&format!("-p{pv}b{b}s{s}g{g}"));
        body.extend(sh_outer(pv, b, s, g, "A"));
    } else {
        for u in ["A", "B"] {
            let (pv, b, s, g) = (SH2_PRE[take(SH2_PRE.len())], SH2_BODIES[take(SH2_BODIES.len())], SH2_SECOND[take(SH2_SECOND.len())], take(SH_GATHERS));
            name.push_str(&format!("-p{pv}b{b}s{s}g{g}"));
            body.extend(sh_outer(pv, b, s, g, u));
        }
    }
    body.push(line(vec![t("Tail "), p(x()), t(".")]));
    body.push(Stmt::Divert(Target::Knot("fin".into())));
    let (_, mut prog) = seg_nth(0, 1, 0);
    prog.knots[0].body = body;
    (name, prog)
}

/// the same shapes written directly in the root of the story instead of in a knot
pub fn shape_root_nth(k: usize, idx: usize) -> (String, Program) {
    let (name, mut prog) = shape_nth(k, idx);
    let body = std::mem::replace(&mut prog.knots[0].body, vec![Stmt::line("Main."), Stmt::Divert(Target::Knot("fin".into()))]);
    prog.root = body;
    (name, prog)
}

/// single programs for defects that are known and cannot be repaired without editing an existing test
pub fn quirk_count() -> usize {
    1
}
pub fn quirk_nth(_i: usize) -> (String, Program) {
    let (_, mut prog) = seg_nth(0, 1, 0);
    // W2 again: the closing quote of the end text is not part of the offered text
    prog.knots[0].body = vec![
        Stmt::line("Start."),
        Stmt::Weave(Weave {
            choices: vec![
                Choice { sticky: false, label: None, conds: vec![], start: vec![t("'Hi")], only: vec![t("!")], end: vec![t("' she said")], fallback: false, body: vec![] },
                Choice { sticky: true, label: None, conds: vec![], start: vec![t("plain")], only: vec![], end: vec![], fallback: false, body: vec![] },
            ],
            gather: Some(Gather { label: None, parts: vec![t("Done.")] }),
        }),
        Stmt::Divert(Target::Knot("fin".into())),
    ];
    ("quirk-quote-after-bracket".into(), prog)
}
