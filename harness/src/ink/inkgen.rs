//! `inkgen`: bounded exhaustive program families over the harness AST. A family is a skeleton
//! with k slots; each slot has a finite, explicitly listed alphabet ordered simplest-first; the
//! family is the full cross product. `count` and `nth` are exact (mixed-radix decoding), so a run
//! covers 0..count, shards are index ranges and a violation is replayed from (family, k, i).
use super::ast::*;

fn t(s: &str) -> Part {
    Part::Text(s.into())
}
fn p(e: Expr) -> Part {
    Part::Print(e)
}
fn x() -> Expr {
    Expr::var("x")
}
fn xplus(n: i32) -> Stmt {
    Stmt::set("x", Expr::bin(x(), BinOp::Add, Expr::Int(n)))
}
fn line(parts: Vec<Part>) -> Stmt {
    Stmt::parts(parts)
}

/// names of the slot items (index = alphabet position); `i` = slot index for unique labels
pub const ITEM_NAMES: &[&str] = &[
    "text", "asg", "print", "glue-end", "glue-start", "tag", "cond-inline", "seq", "cycle", "once", "if-block", "fcall-value", "fcall-text", "fstmt-text", "tunnel", "temp", "string", "choice-basic", "choice-bracket", "choice-label", "choice-cond", "choice-fallback", "choice-nested", "thread", "count-knot", "turns-since", "choice-count", "divert-k2-back",
];

pub fn item(a: usize, i: usize) -> Vec<Stmt> {
    let lab = |s: &str| format!("{s}{i}");
    match ITEM_NAMES[a] {
        "text" => vec![Stmt::line(&format!("Plain {i}."))],
        "asg" => vec![xplus(1)],
        "print" => vec![line(vec![t("Value "), p(x()), t(".")])],
        "glue-end" => vec![line(vec![t("Open "), p(x()), t(" "), Part::Glue])],
        "glue-start" => vec![line(vec![Part::Glue, t(" joined "), p(x()), t(".")])],
        "tag" => vec![Stmt::Line { parts: vec![t("Tagged.")], tags: vec![format!("tg{i}")], divert: None }],
        "cond-inline" => vec![line(vec![Part::Cond(Expr::bin(x(), BinOp::Gt, Expr::Int(1)), vec![t("Big")], vec![t("Small")]), t(" x.")])],
        "seq" => vec![line(vec![Part::Seq(SeqKind::Stopping, vec!["first".into(), "second".into(), "third".into()]), t(" time.")])],
        "cycle" => vec![line(vec![Part::Seq(SeqKind::Cycle, vec!["tick".into(), "tock".into()]), t(" cycle.")])],
        "once" => vec![line(vec![t("Once "), Part::Seq(SeqKind::Once, vec!["alpha".into(), "beta".into()]), t(" end.")])],
        "if-block" => vec![Stmt::If {
            branches: vec![(Expr::bin(x(), BinOp::Gt, Expr::Int(0)), vec![Stmt::line("Positive branch."), xplus(100)])],
            else_: Some(vec![Stmt::line("Zero branch.")]),
        }],
        "fcall-value" => vec![line(vec![t("Call "), p(Expr::Call("fval".into(), vec![x()])), t(".")])],
        "fcall-text" => vec![line(vec![t("Says "), p(Expr::Call("ftext".into(), vec![])), t(" ok.")])],
        "fstmt-text" => vec![Stmt::CallStmt(Expr::Call("ftalk".into(), vec![]))],
        "tunnel" => vec![Stmt::Tunnel("tun".into())],
        "temp" => vec![
            Stmt::Assign { name: lab("tmp"), expr: Expr::bin(x(), BinOp::Mul, Expr::Int(2)), kind: AssignKind::Set, temp_decl: true },
            line(vec![t("Temp "), p(Expr::var(&lab("tmp"))), t(".")]),
        ],
        "string" => vec![Stmt::set("s", Expr::bin(Expr::var("s"), BinOp::Add, Expr::Str("z".into()))), line(vec![t("Str "), p(Expr::var("s")), t(".")])],
        "choice-basic" => vec![Stmt::Weave(Weave {
            choices: vec![
                Choice { sticky: false, label: None, conds: vec![], start: vec![t("pick")], only: vec![], end: vec![], fallback: false, body: vec![Stmt::line("Picked."), xplus(10)] },
                Choice { sticky: true, label: None, conds: vec![], start: vec![t("stay")], only: vec![], end: vec![], fallback: false, body: vec![Stmt::line("Stayed.")] },
            ],
            gather: Some(Gather { label: None, parts: vec![t("Gathered "), p(x()), t(".")] }),
        })],
        "choice-bracket" => vec![Stmt::Weave(Weave {
            choices: vec![
                Choice { sticky: false, label: None, conds: vec![], start: vec![t("Hello ")], only: vec![t("there")], end: vec![t("back")], fallback: false, body: vec![xplus(1)] },
                Choice { sticky: true, label: None, conds: vec![], start: vec![], only: vec![t("silent")], end: vec![], fallback: false, body: vec![Stmt::line("After silent.")] },
            ],
            gather: Some(Gather { label: None, parts: vec![t("Done bracket.")] }),
        })],
        "choice-label" => vec![Stmt::Weave(Weave {
            choices: vec![
                Choice { sticky: false, label: Some(lab("lab")), conds: vec![], start: vec![t("labelled")], only: vec![], end: vec![], fallback: false, body: vec![line(vec![t("Label count "), p(Expr::Count(lab("lab"))), t(".")])] },
                Choice { sticky: true, label: None, conds: vec![], start: vec![t("other")], only: vec![], end: vec![], fallback: false, body: vec![line(vec![t("Label still "), p(Expr::Count(lab("lab"))), t(".")])] },
            ],
            gather: Some(Gather { label: Some(lab("gat")), parts: vec![t("Gather count "), p(Expr::Count(lab("gat"))), t(".")] }),
        })],
        "choice-cond" => vec![Stmt::Weave(Weave {
            choices: vec![
                Choice { sticky: false, label: None, conds: vec![Expr::bin(x(), BinOp::Gt, Expr::Int(0))], start: vec![t("needs x")], only: vec![], end: vec![], fallback: false, body: vec![Stmt::line("Had x.")] },
                Choice { sticky: false, label: None, conds: vec![Expr::bin(x(), BinOp::Eq, Expr::Int(0))], start: vec![t("needs zero")], only: vec![], end: vec![], fallback: false, body: vec![xplus(5)] },
                Choice { sticky: true, label: None, conds: vec![], start: vec![t("always")], only: vec![], end: vec![], fallback: false, body: vec![] },
            ],
            gather: Some(Gather { label: None, parts: vec![t("Cond done "), p(x()), t(".")] }),
        })],
        "choice-fallback" => vec![Stmt::Weave(Weave {
            choices: vec![
                Choice { sticky: false, label: None, conds: vec![Expr::bin(x(), BinOp::Gt, Expr::Int(0))], start: vec![t("only with x")], only: vec![], end: vec![], fallback: false, body: vec![Stmt::line("Visible taken.")] },
                // sticky, so that a second pass (loop families) still has something to follow
                Choice { sticky: true, label: None, conds: vec![], start: vec![], only: vec![], end: vec![], fallback: true, body: vec![Stmt::line("Fell through."), xplus(7)] },
            ],
            gather: Some(Gather { label: None, parts: vec![t("Past fallback.")] }),
        })],
        "choice-nested" => vec![Stmt::Weave(Weave {
            choices: vec![
                Choice {
                    sticky: false,
                    label: None,
                    conds: vec![],
                    start: vec![t("outer")],
                    only: vec![],
                    end: vec![],
                    fallback: false,
                    body: vec![
                        Stmt::line("In outer."),
                        Stmt::Weave(Weave {
                            choices: vec![
                                Choice { sticky: false, label: None, conds: vec![], start: vec![t("inner one")], only: vec![], end: vec![], fallback: false, body: vec![xplus(1)] },
                                Choice { sticky: false, label: None, conds: vec![], start: vec![t("inner two")], only: vec![], end: vec![], fallback: false, body: vec![Stmt::line("Two.")] },
                            ],
                            gather: Some(Gather { label: None, parts: vec![t("Inner gather.")] }),
                        }),
                        Stmt::line("After inner."),
                    ],
                },
                Choice { sticky: true, label: None, conds: vec![], start: vec![t("flat")], only: vec![], end: vec![], fallback: false, body: vec![] },
            ],
            gather: Some(Gather { label: None, parts: vec![t("Outer gather "), p(x()), t(".")] }),
        })],
        "thread" => vec![
            Stmt::Thread("thr".into()),
            Stmt::Weave(Weave {
                choices: vec![Choice { sticky: true, label: None, conds: vec![], start: vec![t("own choice")], only: vec![], end: vec![], fallback: false, body: vec![Stmt::line("Own.")] }],
                gather: Some(Gather { label: None, parts: vec![t("Joined.")] }),
            }),
        ],
        "count-knot" => vec![line(vec![t("Counts "), p(Expr::Count("main".into())), t(" "), p(Expr::Count("k2".into())), t(" "), p(Expr::Count("tun".into())), t(".")])],
        "turns-since" => vec![line(vec![t("Turns "), p(Expr::TurnsSince("main".into())), t(" "), p(Expr::TurnsSince("k2".into())), t(".")])],
        "choice-count" => vec![Stmt::Weave(Weave {
            choices: vec![
                Choice { sticky: true, label: None, conds: vec![], start: vec![t("cc "), p(Expr::ChoiceCount)], only: vec![], end: vec![], fallback: false, body: vec![] },
                Choice { sticky: true, label: None, conds: vec![], start: vec![t("cc2 "), p(Expr::ChoiceCount)], only: vec![], end: vec![], fallback: false, body: vec![] },
            ],
            gather: Some(Gather { label: None, parts: vec![t("Counted.")] }),
        })],
        "divert-k2-back" => vec![Stmt::If { branches: vec![(Expr::bin(Expr::Count("k2".into()), BinOp::Lt, Expr::Int(1)), vec![Stmt::Divert(Target::Knot("k2".into()))])], else_: None }],
        _ => vec![],
    }
}

/// segment family: header + main knot with k slots + tail knots
pub fn seg_count(k: usize, a: usize) -> usize {
    a.pow(k as u32)
}

pub fn seg_nth(k: usize, a: usize, mut idx: usize) -> (String, Program) {
    let mut body = vec![];
    let mut name = String::from("gen");
    for slot in 0..k {
        let ai = idx % a;
        idx /= a;
        name.push('-');
        name.push_str(ITEM_NAMES[ai]);
        body.extend(item(ai, slot));
    }
    body.push(Stmt::Divert(Target::Knot("fin".into())));
    let prog = Program {
        globals: vec![("x".into(), Expr::Int(0)), ("y".into(), Expr::Int(0)), ("s".into(), Expr::Str("".into()))],
        root: vec![Stmt::Divert(Target::Knot("main".into()))],
        knots: vec![
            Knot { name: "main".into(), params: vec![], is_function: false, body, stitches: vec![] },
            Knot {
                name: "fin".into(),
                params: vec![],
                is_function: false,
                body: vec![line(vec![t("Final "), p(x()), t(" "), p(Expr::var("y")), t(" "), p(Expr::var("s")), t(".")]), Stmt::Divert(Target::End)],
                stitches: vec![],
            },
            Knot { name: "k2".into(), params: vec![], is_function: false, body: vec![line(vec![t("In k2 "), p(Expr::Count("k2".into())), t(".")]), xplus(1000), Stmt::Divert(Target::Knot("main".into()))], stitches: vec![] },
            Knot { name: "tun".into(), params: vec![], is_function: false, body: vec![xplus(100), line(vec![t("In tunnel "), p(x()), t(".")]), Stmt::TunnelReturn], stitches: vec![] },
            Knot { name: "fval".into(), params: vec!["v".into()], is_function: true, body: vec![Stmt::Return(Some(Expr::bin(Expr::var("v"), BinOp::Add, Expr::Int(1))))], stitches: vec![] },
            Knot { name: "ftext".into(), params: vec![], is_function: true, body: vec![Stmt::line("spoken")], stitches: vec![] },
            Knot {
                name: "ftalk".into(),
                params: vec![],
                is_function: true,
                body: vec![Stmt::line("Talk one."), Stmt::set("y", Expr::bin(Expr::var("y"), BinOp::Add, Expr::Int(1))), line(vec![t("Talk two "), p(Expr::var("y")), t(".")])],
                stitches: vec![],
            },
            Knot {
                name: "thr".into(),
                params: vec![],
                is_function: false,
                body: vec![
                    Stmt::line("Thread text."),
                    Stmt::Weave(Weave {
                        choices: vec![Choice { sticky: false, label: None, conds: vec![], start: vec![t("thread choice")], only: vec![], end: vec![], fallback: false, body: vec![Stmt::line("Thread chosen."), xplus(500), Stmt::Divert(Target::Knot("fin".into()))] }],
                        gather: None,
                    }),
                ],
                stitches: vec![],
            },
        ],
    };
    (name, prog)
}

fn sticky(text: &str, body: Vec<Stmt>) -> Choice {
    Choice { sticky: true, label: None, conds: vec![], start: vec![], only: vec![t(text)], end: vec![], fallback: false, body }
}
fn once(text: &str, body: Vec<Stmt>) -> Choice {
    Choice { sticky: false, label: None, conds: vec![], start: vec![], only: vec![t(text)], end: vec![], fallback: false, body }
}

/// loop family: the main knot is re-entered through a sticky choice, so sequences advance,
/// once-only choices exhaust, counts grow and K1 (no recount on self-divert) is exercised
pub fn loop_nth(k: usize, a: usize, idx: usize) -> (String, Program) {
    let (name, mut prog) = seg_nth(k, a, idx);
    let main = &mut prog.knots[0];
    main.body.pop(); // the trailing `-> fin`
    let mut body = vec![line(vec![t("Hub "), p(Expr::Count("main".into())), t(" "), p(x()), t(".")])];
    body.append(&mut main.body);
    body.push(Stmt::Weave(Weave {
        choices: vec![sticky("again", vec![Stmt::Divert(Target::Knot("main".into()))]), once("via k2", vec![Stmt::Divert(Target::Knot("k2".into()))]), sticky("leave", vec![Stmt::Divert(Target::Knot("fin".into()))])],
        gather: None,
    }));
    main.body = body;
    (name.replacen("gen", "loop", 1), prog)
}

/// stitch family: a knot without own content and two stitches; slot items sit in the stitches,
/// flow moves between stitches and back into the knot from outside
pub fn stitch_nth(k: usize, a: usize, idx: usize) -> (String, Program) {
    let (name, mut prog) = seg_nth(k, a, idx);
    let main = &mut prog.knots[0];
    main.body.pop();
    let items: Vec<Stmt> = std::mem::take(&mut main.body);
    let half = items.len() / 2;
    let (first, second) = items.split_at(half);
    let cnt = |s: &str| p(Expr::Count(s.into()));
    let mut a_body = vec![line(vec![t("Stitch a "), cnt("main"), t(" "), cnt("main.a"), t(" "), cnt("main.b"), t(".")])];
    a_body.extend(first.iter().cloned());
    a_body.push(Stmt::Divert(Target::Stitch("main".into(), "b".into())));
    let mut b_body = vec![line(vec![t("Stitch b "), cnt("main.b"), t(".")])];
    b_body.extend(second.iter().cloned());
    b_body.push(Stmt::Weave(Weave {
        choices: vec![sticky("to a", vec![Stmt::Divert(Target::Stitch("main".into(), "a".into()))]), sticky("to b", vec![Stmt::Divert(Target::Stitch("main".into(), "b".into()))]), once("via k2", vec![Stmt::Divert(Target::Knot("k2".into()))]), sticky("leave", vec![Stmt::Divert(Target::Knot("fin".into()))])],
        gather: None,
    }));
    main.stitches = vec![("a".into(), a_body), ("b".into(), b_body)];
    (name.replacen("gen", "stitch", 1), prog)
}

/// hand-transcribed corpus stories used to calibrate refint against the reference toolchain:
/// (corpus json relative path, the same story as harness AST)
pub fn calibration() -> Vec<(&'static str, Program)> {
    vec![]
}
