pub mod ast;
pub mod inkgen;
pub mod refint;
pub mod expr;
