//! `refint`: an independent source-level reference interpreter for the harness's Ink AST.
//! No container tree, no paths, no patches, no rewind: the AST is flattened into a small
//! instruction list with explicit continuations (so that a stop at a choice point is just a saved
//! state), states are plain cloneable values, a turn is run to its stop and *then* cut into lines
//! by the language rule (RULES.md T1-T6). Every rule it implements has an id in RULES.md.
use super::ast::*;
use std::collections::BTreeMap;

#[derive(Clone, Debug, PartialEq)]
pub enum V {
    Int(i32),
    Bool(bool),
    Str(String),
    Void,
}

impl V {
    pub fn print(&self) -> String {
        match self {
            V::Int(i) => i.to_string(),
            V::Bool(b) => b.to_string(),
            V::Str(s) => s.clone(),
            V::Void => String::new(),
        }
    }
    pub fn truthy(&self) -> bool {
        match self {
            V::Int(i) => *i != 0,
            V::Bool(b) => *b,
            V::Str(s) => !s.is_empty(),
            V::Void => false,
        }
    }
    fn as_int(&self) -> Option<i32> {
        match self {
            V::Int(i) => Some(*i),
            V::Bool(b) => Some(*b as i32),
            _ => None,
        }
    }
    /// the form the harness's observation uses (render_vt)
    pub fn render(&self) -> String {
        match self {
            V::Int(i) => format!("Int({i})"),
            V::Bool(b) => format!("Bool({b})"),
            V::Str(s) => format!("Str({s:?})"),
            V::Void => "Void".into(),
        }
    }
}

#[derive(Clone, Debug)]
enum Ins {
    Text(String),
    Eol,
    Glue,
    Tag(String),
    Print(Expr),
    Assign { name: String, expr: Expr, kind: AssignKind, temp: bool },
    Jump(usize),
    JumpIfFalse(Expr, usize),
    Divert(Target),
    TunnelCall(String),
    TunnelRet,
    /// `->-> target`
    TunnelRetTo(Target),
    Thread(String),
    CallStmt(Expr),
    Return(Option<Expr>),
    /// pick the branch of a sequence: (id, kind, branch pcs, end pc)
    Seq(usize, SeqKind, Vec<usize>, usize),
    Choice(ChoiceIns),
    /// gather label: count one pass (W5)
    CountLabel(String),
    /// end of a container's content
    FallOff,
}

#[derive(Clone, Debug)]
struct ChoiceIns {
    id: usize,
    sticky: bool,
    label: Option<String>,
    conds: Vec<Expr>,
    start: Vec<Part>,
    only: Vec<Part>,
    end: Vec<Part>,
    fallback: bool,
    /// pc of the code run when chosen (prints start+end, then the body)
    target: usize,
}

#[derive(Clone, Debug, PartialEq)]
enum FrameKind {
    Root,
    Tunnel,
    Function,
}

#[derive(Clone, Debug)]
struct Frame {
    kind: FrameKind,
    pc: usize,
    temps: BTreeMap<String, V>,
    out_start: usize,
}

#[derive(Clone, Debug)]
enum Item {
    Text(String),
    /// carries the index of the state snapshot taken when it was emitted (T6)
    Eol(usize),
    Glue,
    Tag(String),
    /// zero-width: external call number n happened here (X3)
    Mark(usize),
}

/// how calls of EXTERNAL functions behave (RULES.md X1-X4)
#[derive(Clone, Copy, Debug, PartialEq)]
pub enum ExtMode {
    /// bound, look-ahead safe: the pure host function
    Safe,
    /// bound, not look-ahead safe: the same, but a call from inside a string or choice text is refused
    Unsafe,
    /// not bound, fallbacks allowed: the Ink function of the same name
    Fallback,
}

#[derive(Clone, Debug, PartialEq)]
pub struct ExtCall {
    pub name: String,
    pub args: Vec<String>,
    /// complete lines of this turn before the call (filled in by the line cutter)
    pub lines_before: usize,
}

#[derive(Clone, Debug)]
pub struct Pending {
    pub text: String,
    pub visible: bool,
    id: usize,
    label: Option<String>,
    target: usize,
    thread: Vec<Frame>,
}

#[derive(Clone, Debug, Default, PartialEq)]
pub struct Visible {
    pub globals: BTreeMap<String, String>,
    pub counts: BTreeMap<String, i32>,
}

#[derive(Clone, Debug, PartialEq)]
pub struct LineOut {
    pub text: String,
    pub tags: Vec<String>,
    /// state the host sees after this line (T6)
    pub state: Visible,
}

#[derive(Clone, Debug, PartialEq)]
pub struct TurnOut {
    pub lines: Vec<LineOut>,
    pub choices: Vec<String>,
    pub ended: bool,
    /// a story error would occur here (the generator never produces such programs; a Some here
    /// means the case is outside the supported core and yields no verdict)
    pub error: Option<String>,
    /// external calls of this turn, in order
    pub ext_calls: Vec<ExtCall>,
}

pub struct Compiled {
    ins: Vec<Ins>,
    /// region (knot, stitch) of every instruction
    region: Vec<(Option<String>, Option<String>)>,
    entry: BTreeMap<String, usize>,
    params: BTreeMap<String, Vec<String>>,
    functions: Vec<String>,
    /// first stitch of a knot that has no content of its own before it
    first_stitch: BTreeMap<String, String>,
    globals: Vec<(String, Expr)>,
    root_entry: usize,
    n_choices: usize,
    label_of_choice: BTreeMap<usize, String>,
    label_region: BTreeMap<String, (Option<String>, Option<String>)>,
    label_entry: BTreeMap<String, usize>,
}

struct Compiler {
    ins: Vec<Ins>,
    region: Vec<(Option<String>, Option<String>)>,
    cur: (Option<String>, Option<String>),
    seq_id: usize,
    choice_id: usize,
    label_of_choice: BTreeMap<usize, String>,
    label_region: BTreeMap<String, (Option<String>, Option<String>)>,
    label_entry: BTreeMap<String, usize>,
}

impl Compiler {
    fn emit(&mut self, i: Ins) -> usize {
        self.ins.push(i);
        self.region.push(self.cur.clone());
        self.ins.len() - 1
    }
    fn parts(&mut self, parts: &[Part]) {
        for p in parts {
            match p {
                Part::Text(t) => {
                    self.emit(Ins::Text(t.clone()));
                }
                Part::Glue => {
                    self.emit(Ins::Glue);
                }
                Part::Print(e) => {
                    self.emit(Ins::Print(e.clone()));
                }
                Part::Cond(c, a, b) => {
                    let j = self.emit(Ins::JumpIfFalse(c.clone(), 0));
                    self.parts(a);
                    let je = self.emit(Ins::Jump(0));
                    let else_pc = self.ins.len();
                    self.parts(b);
                    let end = self.ins.len();
                    self.ins[j] = Ins::JumpIfFalse(c.clone(), else_pc);
                    self.ins[je] = Ins::Jump(end);
                }
                Part::Seq(kind, els) => {
                    let id = self.seq_id;
                    self.seq_id += 1;
                    let s = self.emit(Ins::Seq(id, kind.clone(), vec![], 0));
                    let mut pcs = vec![];
                    let mut jumps = vec![];
                    for e in els {
                        pcs.push(self.ins.len());
                        if !e.is_empty() {
                            self.emit(Ins::Text(e.clone()));
                        }
                        jumps.push(self.emit(Ins::Jump(0)));
                    }
                    let end = self.ins.len();
                    for j in jumps {
                        self.ins[j] = Ins::Jump(end);
                    }
                    self.ins[s] = Ins::Seq(id, kind.clone(), pcs, end);
                }
            }
        }
    }
    /// compile a block; when it ends, control goes to `cont` (None = falls off the container)
    fn block(&mut self, stmts: &[Stmt], cont: Option<usize>) {
        // `cont` may be unknown yet: callers pass a placeholder jump and patch it
        for s in stmts {
            self.stmt(s);
        }
        match cont {
            Some(pc) => {
                self.emit(Ins::Jump(pc));
            }
            None => {
                self.emit(Ins::FallOff);
            }
        }
    }
    fn stmt(&mut self, s: &Stmt) {
        match s {
            Stmt::Line { parts, tags, divert } => {
                // T1b: text directly in front of an inline divert is trimmed at its end and then
                // terminated with exactly one blank, whatever was typed before the arrow
                match (divert, parts.last()) {
                    (Some(_), Some(Part::Text(last))) if tags.is_empty() => {
                        self.parts(&parts[..parts.len() - 1]);
                        self.parts(&[Part::Text(format!("{} ", last.trim_end_matches([' ', '\t'])))]);
                    }
                    _ => self.parts(parts),
                }
                for t in tags {
                    self.emit(Ins::Tag(t.clone()));
                }
                // T1: `text -> k` on one line: the text runs on into the target, no line end here
                match divert {
                    Some(d) => {
                        self.emit(Ins::Divert(d.clone()));
                    }
                    None => {
                        // a line that holds only tags has no line end of its own (T5)
                        if !(parts.is_empty() && !tags.is_empty()) {
                            self.emit(Ins::Eol);
                        }
                    }
                }
            }
            Stmt::Assign { name, expr, kind, temp_decl } => {
                self.emit(Ins::Assign { name: name.clone(), expr: expr.clone(), kind: kind.clone(), temp: *temp_decl });
            }
            Stmt::Divert(t) | Stmt::InlineDivert(t) => {
                self.emit(Ins::Divert(t.clone()));
            }
            Stmt::Tunnel(t) => {
                self.emit(Ins::TunnelCall(t.clone()));
            }
            Stmt::TunnelReturn => {
                self.emit(Ins::TunnelRet);
            }
            Stmt::TunnelReturnTo(t) => {
                self.emit(Ins::TunnelRetTo(t.clone()));
            }
            Stmt::SeqBlock(kind, elems) => {
                // L3b: the block form of a sequence is made of lines like the block conditional
                // (L2): every element starts with a line end, the closing brace ends one
                let id = self.seq_id;
                self.seq_id += 1;
                let head = self.emit(Ins::Seq(id, kind.clone(), vec![], 0));
                let mut pcs = vec![];
                let mut jumps = vec![];
                for e in elems {
                    pcs.push(self.ins.len());
                    self.emit(Ins::Eol);
                    for st in e {
                        self.stmt(st);
                    }
                    jumps.push(self.emit(Ins::Jump(0)));
                }
                let end = self.ins.len();
                for j in jumps {
                    self.ins[j] = Ins::Jump(end);
                }
                self.ins[head] = Ins::Seq(id, kind.clone(), pcs, end);
                self.emit(Ins::Eol);
            }
            Stmt::Thread(t) => {
                self.emit(Ins::Thread(t.clone()));
            }
            Stmt::CallStmt(e) => {
                self.emit(Ins::CallStmt(e.clone()));
            }
            Stmt::Return(e) => {
                self.emit(Ins::Return(e.clone()));
            }
            Stmt::If { branches, else_ } => {
                let mut end_jumps = vec![];
                // L2b: the block form is made of lines: every branch starts on a new line and the
                // closing brace ends one (these line ends are visible only where T2 keeps them:
                // after a tag-only line, or after text that ran on through an inline divert)
                for (c, b) in branches {
                    let j = self.emit(Ins::JumpIfFalse(c.clone(), 0));
                    self.emit(Ins::Eol);
                    for s in b {
                        self.stmt(s);
                    }
                    end_jumps.push(self.emit(Ins::Jump(0)));
                    let next = self.ins.len();
                    self.ins[j] = Ins::JumpIfFalse(c.clone(), next);
                }
                if let Some(e) = else_ {
                    self.emit(Ins::Eol);
                    for s in e {
                        self.stmt(s);
                    }
                }
                let end = self.ins.len();
                for j in end_jumps {
                    self.ins[j] = Ins::Jump(end);
                }
                self.emit(Ins::Eol);
            }
            Stmt::Weave(w) => {
                // choice points in sequence, then the end of this container's content
                let mut cps = vec![];
                for c in &w.choices {
                    let id = self.choice_id;
                    self.choice_id += 1;
                    if let Some(l) = &c.label {
                        self.label_of_choice.insert(id, l.clone());
                        self.label_region.insert(l.clone(), self.cur.clone());
                    }
                    cps.push((
                        self.emit(Ins::Choice(ChoiceIns { id, sticky: c.sticky, label: c.label.clone(), conds: c.conds.clone(), start: c.start.clone(), only: c.only.clone(), end: c.end.clone(), fallback: c.fallback, target: 0 })),
                        c,
                    ));
                }
                // (a gather without choices of its own is simply walked through)
                if !w.choices.is_empty() {
                    self.emit(Ins::FallOff);
                }
                // bodies: text shown on choosing (start + end, then line end), the body, then the
                // continuation (the gather, or whatever follows this weave)
                let mut to_cont = vec![];
                for (cp, c) in cps {
                    let target = self.ins.len();
                    if let Ins::Choice(ci) = &mut self.ins[cp] {
                        ci.target = target;
                    }
                    if let Some(l) = &c.label {
                        self.label_entry.insert(l.clone(), target);
                    }
                    if !c.fallback {
                        self.parts(&c.start);
                        self.parts(&c.end);
                        if matches!(c.body.first(), Some(Stmt::InlineDivert(_))) {
                            // W2b: `* text -> k` on one line: no line end, the text (with the
                            // space before the arrow) runs on into k's first line
                            self.emit(Ins::Text(" ".into()));
                        } else {
                            self.emit(Ins::Eol);
                        }
                    }
                    for s in &c.body {
                        self.stmt(s);
                    }
                    to_cont.push(self.emit(Ins::Jump(0)));
                }
                let cont = self.ins.len();
                for j in to_cont {
                    self.ins[j] = Ins::Jump(cont);
                }
                if let Some(g) = &w.gather {
                    if let Some(l) = &g.label {
                        self.label_region.insert(l.clone(), self.cur.clone());
                        self.label_entry.insert(l.clone(), cont);
                        self.emit(Ins::CountLabel(l.clone()));
                    }
                    if !g.parts.is_empty() {
                        self.parts(&g.parts);
                        self.emit(Ins::Eol);
                    }
                }
                // the statements after the weave follow here
            }
        }
    }
}

pub fn compile(p: &Program) -> Compiled {
    let mut c = Compiler { ins: vec![], region: vec![], cur: (None, None), seq_id: 0, choice_id: 0, label_of_choice: BTreeMap::new(), label_region: BTreeMap::new(), label_entry: BTreeMap::new() };
    let root_entry = 0;
    c.block(&p.root, None);
    let mut entry = BTreeMap::new();
    let mut params = BTreeMap::new();
    let mut functions = vec![];
    let mut first_stitch = BTreeMap::new();
    for k in &p.knots {
        c.cur = (Some(k.name.clone()), None);
        entry.insert(k.name.clone(), c.ins.len());
        params.insert(k.name.clone(), k.params.clone());
        if k.is_function {
            functions.push(k.name.clone());
        }
        if k.body.is_empty() && !k.stitches.is_empty() {
            first_stitch.insert(k.name.clone(), k.stitches[0].0.clone());
            // an empty knot body diverts into its first stitch
            c.emit(Ins::Divert(Target::Stitch(k.name.clone(), k.stitches[0].0.clone())));
        } else {
            c.block(&k.body, None);
        }
        for (sn, sb) in &k.stitches {
            c.cur = (Some(k.name.clone()), Some(sn.clone()));
            entry.insert(format!("{}.{}", k.name, sn), c.ins.len());
            c.block(sb, None);
        }
    }
    Compiled {
        ins: c.ins,
        region: c.region,
        entry,
        params,
        functions,
        first_stitch,
        globals: p.globals.clone(),
        root_entry,
        n_choices: c.choice_id,
        label_of_choice: c.label_of_choice,
        label_region: c.label_region,
        label_entry: c.label_entry,
    }
}

#[derive(Clone)]
pub struct State {
    globals: BTreeMap<String, V>,
    threads: Vec<Vec<Frame>>,
    counts: BTreeMap<String, i32>,
    last_turn: BTreeMap<String, i32>,
    turn: i32,
    seq_counts: BTreeMap<usize, i32>,
    choice_counts: BTreeMap<usize, i32>,
    out: Vec<Item>,
    snaps: Vec<Visible>,
    pub pending: Vec<Pending>,
    ended: bool,
    /// region of the position flow last was at (K1)
    prev_region: (Option<String>, Option<String>),
    error: Option<String>,
    steps: usize,
    /// external calls of the current turn
    ext_calls: Vec<ExtCall>,
    /// > 0 while a string literal or choice text is being built
    in_string: usize,
}

pub struct Vm<'a> {
    pub c: &'a Compiled,
    pub observe_globals: Vec<String>,
    pub observe_counts: Vec<String>,
    pub ext_mode: ExtMode,
}

const STEP_LIMIT: usize = 20_000;

impl<'a> Vm<'a> {
    pub fn new(c: &'a Compiled, observe_globals: Vec<String>, observe_counts: Vec<String>) -> Self {
        Vm { c, observe_globals, observe_counts, ext_mode: ExtMode::Safe }
    }

    pub fn initial(&self) -> State {
        let mut s = State {
            globals: BTreeMap::new(),
            threads: vec![vec![Frame { kind: FrameKind::Root, pc: self.c.root_entry, temps: BTreeMap::new(), out_start: 0 }]],
            counts: BTreeMap::new(),
            last_turn: BTreeMap::new(),
            turn: -1,
            seq_counts: BTreeMap::new(),
            choice_counts: BTreeMap::new(),
            out: vec![],
            snaps: vec![],
            pending: vec![],
            ended: false,
            prev_region: (None, None),
            error: None,
            steps: 0,
            ext_calls: vec![],
            in_string: 0,
        };
        // L1: globals are initialised before play
        for (n, e) in &self.c.globals {
            let v = self.eval(&mut s, e);
            s.globals.insert(n.clone(), v);
        }
        s
    }

    fn visible(&self, s: &State) -> Visible {
        let mut v = Visible::default();
        for g in &self.observe_globals {
            v.globals.insert(g.clone(), s.globals.get(g).map(|x| x.render()).unwrap_or_else(|| "None".into()));
        }
        for c in &self.observe_counts {
            v.counts.insert(c.clone(), *s.counts.get(c).unwrap_or(&0));
        }
        v
    }

    fn frame<'s>(&self, s: &'s mut State) -> &'s mut Frame {
        s.threads.last_mut().unwrap().last_mut().unwrap()
    }

    fn lookup(&self, s: &State, name: &str) -> V {
        if let Some(f) = s.threads.last().and_then(|t| t.last())
            && let Some(v) = f.temps.get(name)
        {
            return v.clone();
        }
        if let Some(v) = s.globals.get(name) {
            return v.clone();
        }
        V::Int(0)
    }

    /// K1: entering `target` (knot or knot.stitch) from the position whose region is `from`
    fn enter(&self, s: &mut State, knot: &str, stitch: Option<&str>, from: &(Option<String>, Option<String>)) {
        let in_knot = from.0.as_deref() == Some(knot);
        if !in_knot {
            *s.counts.entry(knot.to_string()).or_insert(0) += 1;
            s.last_turn.insert(knot.to_string(), s.turn);
        }
        if let Some(st) = stitch {
            let in_stitch = in_knot && from.1.as_deref() == Some(st);
            if !in_stitch {
                let key = format!("{knot}.{st}");
                *s.counts.entry(key.clone()).or_insert(0) += 1;
                s.last_turn.insert(key, s.turn);
            }
        }
    }

    /// divert-like jump to a knot / stitch: counting by K1, and a knot without own content
    /// continues into its first stitch (compiled as a divert, counted there)
    fn goto_named(&self, s: &mut State, target: &Target, from_pc: usize) -> Result<usize, String> {
        let from = self.c.region[from_pc.min(self.c.region.len() - 1)].clone();
        match target {
            Target::Knot(k) => {
                let pc = *self.c.entry.get(k).ok_or_else(|| format!("unknown knot {k}"))?;
                self.enter(s, k, None, &from);
                Ok(pc)
            }
            Target::Stitch(k, st) => {
                let pc = *self.c.entry.get(&format!("{k}.{st}")).ok_or_else(|| format!("unknown stitch {k}.{st}"))?;
                self.enter(s, k, Some(st), &from);
                Ok(pc)
            }
            Target::Label(l) | Target::LabelIn(_, l) => {
                let pc = *self.c.label_entry.get(l).ok_or_else(|| format!("unknown label {l}"))?;
                // the label's knot/stitch are entered if flow was outside them
                if let Some((Some(k), st)) = self.c.label_region.get(l).cloned() {
                    self.enter(s, &k, st.as_deref(), &from);
                }
                // W4b: a divert to a CHOICE's label runs that choice's content and counts as a visit
                // of the choice (its label count grows, a once-only choice is used up); calibration:
                // choices/divert-choice. (A gather's label is counted by its own CountLabel.)
                if let Some((id, _)) = self.c.label_of_choice.iter().find(|(_, name)| *name == l) {
                    *s.choice_counts.entry(*id).or_insert(0) += 1;
                    *s.counts.entry(l.clone()).or_insert(0) += 1;
                    s.last_turn.insert(l.clone(), s.turn);
                }
                Ok(pc)
            }
            Target::End | Target::Done | Target::KnotArgs(..) => Err("not a named target".into()),
        }
    }

    pub fn eval(&self, s: &mut State, e: &Expr) -> V {
        match e {
            Expr::Int(i) => V::Int(*i),
            Expr::Bool(b) => V::Bool(*b),
            Expr::Str(t) => V::Str(t.clone()),
            Expr::Var(n) => self.lookup(s, n),
            Expr::Count(n) => V::Int(*s.counts.get(n).unwrap_or(&0)),
            Expr::TurnsSince(k) => match s.last_turn.get(k) {
                Some(t) => V::Int(s.turn - t),
                None => V::Int(-1),
            },
            // W6: choices generated so far at this stop (invisible ones included)
            Expr::ChoiceCount => V::Int(s.pending.len() as i32),
            Expr::Not(a) => {
                let v = self.eval(s, a);
                V::Bool(!v.truthy())
            }
            Expr::Neg(a) => match self.eval(s, a) {
                V::Int(i) => V::Int(i.wrapping_neg()),
                V::Bool(b) => V::Int(-(b as i32)),
                other => other,
            },
            Expr::Bin(a, op, b) => {
                let (x, y) = (self.eval(s, a), self.eval(s, b));
                self.binop(&x, op, &y, s)
            }
            Expr::Call(f, args) => {
                let vals: Vec<V> = args.iter().map(|a| self.eval(s, a)).collect();
                self.call_function(s, f, vals)
            }
            Expr::Ext(f, args) => {
                // X1: arguments left to right, then the call
                let vals: Vec<V> = args.iter().map(|a| self.eval(s, a)).collect();
                if s.error.is_some() {
                    return V::Void;
                }
                match self.ext_mode {
                    ExtMode::Fallback => self.call_function(s, f, vals),
                    mode => {
                        if mode == ExtMode::Unsafe && s.in_string > 0 {
                            // X4: refused
                            s.error = Some(format!("unsafe-in-string:{f}"));
                            return V::Void;
                        }
                        let n = s.ext_calls.len();
                        s.ext_calls.push(ExtCall { name: f.clone(), args: vals.iter().map(|v| v.render()).collect(), lines_before: 0 });
                        s.out.push(Item::Mark(n));
                        ext_value(f, &vals)
                    }
                }
            }
            Expr::Interp(parts) => {
                s.in_string += 1;
                let t = self.choice_text(s, parts);
                s.in_string -= 1;
                V::Str(t)
            }
        }
    }

    fn binop(&self, x: &V, op: &BinOp, y: &V, s: &mut State) -> V {
        use BinOp::*;
        // strings: + concatenates (the other operand converted), == / != compare
        if matches!(x, V::Str(_)) || matches!(y, V::Str(_)) {
            let (a, b) = (x.print(), y.print());
            return match op {
                Add => V::Str(format!("{a}{b}")),
                Eq => V::Bool(a == b),
                Ne => V::Bool(a != b),
                _ => {
                    s.error = Some(format!("operator {} on strings", op.text()));
                    V::Void
                }
            };
        }
        match op {
            And => return V::Bool(x.truthy() && y.truthy()),
            Or => return V::Bool(x.truthy() || y.truthy()),
            _ => {}
        }
        let (Some(a), Some(b)) = (x.as_int(), y.as_int()) else {
            s.error = Some(format!("operator {} on {:?} and {:?}", op.text(), x, y));
            return V::Void;
        };
        match op {
            Add => V::Int(a.wrapping_add(b)),
            Sub => V::Int(a.wrapping_sub(b)),
            Mul => V::Int(a.wrapping_mul(b)),
            Div => {
                if b == 0 {
                    s.error = Some("division by zero".into());
                    V::Void
                } else {
                    V::Int(a.wrapping_div(b))
                }
            }
            Mod => {
                if b == 0 {
                    s.error = Some("modulo by zero".into());
                    V::Void
                } else {
                    V::Int(a.wrapping_rem(b))
                }
            }
            Eq => V::Bool(a == b),
            Ne => V::Bool(a != b),
            Lt => V::Bool(a < b),
            Gt => V::Bool(a > b),
            Le => V::Bool(a <= b),
            Ge => V::Bool(a >= b),
            And | Or => unreachable!(),
        }
    }

    /// F2: run a function to completion (functions cannot stop); its text appears in place, trimmed
    fn call_function(&self, s: &mut State, f: &str, args: Vec<V>) -> V {
        let Some(&pc) = self.c.entry.get(f) else {
            s.error = Some(format!("unknown function {f}"));
            return V::Void;
        };
        let caller_pc = s.threads.last().unwrap().last().unwrap().pc;
        let from = self.c.region[caller_pc.min(self.c.region.len() - 1)].clone();
        self.enter(s, f, None, &from);
        let mut temps = BTreeMap::new();
        for (p, v) in self.c.params.get(f).cloned().unwrap_or_default().iter().zip(args) {
            temps.insert(p.clone(), v);
        }
        let out_start = s.out.len();
        let depth = s.threads.last().unwrap().len();
        s.threads.last_mut().unwrap().push(Frame { kind: FrameKind::Function, pc, temps, out_start });
        let mut ret = V::Void;
        // run until that frame is popped
        while s.threads.last().unwrap().len() > depth && s.error.is_none() {
            if let Some(v) = self.step(s) {
                ret = v;
            }
        }
        // trim the function's output at both ends (line ends and whitespace)
        let start = out_start.min(s.out.len());
        let blank = |i: &Item| matches!(i, Item::Eol(_)) || matches!(i, Item::Text(t) if t.trim().is_empty());
        loop {
            // last item that is not a call mark
            let Some(j) = (start..s.out.len()).rev().find(|&j| !matches!(s.out[j], Item::Mark(_))) else { break };
            if blank(&s.out[j]) {
                s.out.remove(j);
            } else {
                break;
            }
        }
        loop {
            let Some(j) = (start..s.out.len()).find(|&j| !matches!(s.out[j], Item::Mark(_))) else { break };
            if blank(&s.out[j]) {
                s.out.remove(j);
            } else {
                break;
            }
        }
        ret
    }

    fn push_eol(&self, s: &mut State) {
        let snap = self.visible(s);
        s.snaps.push(snap);
        let idx = s.snaps.len() - 1;
        s.out.push(Item::Eol(idx));
    }

    fn choice_text(&self, s: &mut State, parts: &[Part]) -> String {
        // evaluated like content, but into a string
        let mut t = String::new();
        for p in parts {
            match p {
                Part::Text(x) => t.push_str(x),
                Part::Glue => {}
                Part::Print(e) => t.push_str(&self.eval(s, e).print()),
                Part::Cond(c, a, b) => {
                    let v = self.eval(s, c).truthy();
                    t.push_str(&self.choice_text(s, if v { a } else { b }));
                }
                Part::Seq(..) => {}
            }
        }
        t
    }

    /// one instruction; returns Some(value) when a function frame returned
    fn step(&self, s: &mut State) -> Option<V> {
        s.steps += 1;
        if s.steps > STEP_LIMIT {
            s.error = Some("step limit".into());
            return None;
        }
        let pc = self.frame(s).pc;
        let ins = self.c.ins[pc].clone();
        self.frame(s).pc = pc + 1;
        match ins {
            Ins::Text(t) => s.out.push(Item::Text(t)),
            Ins::Eol => self.push_eol(s),
            Ins::Glue => s.out.push(Item::Glue),
            Ins::Tag(t) => s.out.push(Item::Tag(t)),
            Ins::Print(e) => {
                let v = self.eval(s, &e);
                let t = v.print();
                if !t.is_empty() {
                    s.out.push(Item::Text(t));
                }
            }
            Ins::Assign { name, expr, kind, temp } => {
                let v = self.eval(s, &expr);
                let cur = self.lookup(s, &name);
                let nv = match kind {
                    AssignKind::Set => v,
                    AssignKind::Add => self.binop(&cur, &BinOp::Add, &v, s),
                    AssignKind::Sub => self.binop(&cur, &BinOp::Sub, &v, s),
                };
                let is_temp = temp || self.frame(s).temps.contains_key(&name);
                if is_temp {
                    self.frame(s).temps.insert(name, nv);
                } else {
                    s.globals.insert(name, nv);
                }
            }
            Ins::Jump(t) => self.frame(s).pc = t,
            Ins::JumpIfFalse(c, t) => {
                if !self.eval(s, &c).truthy() {
                    self.frame(s).pc = t;
                }
            }
            Ins::Divert(t) => match t {
                Target::End => {
                    s.ended = true;
                    s.pending.clear();
                    self.frame(s).pc = usize::MAX;
                }
                Target::Done => {
                    // K2: ends the current thread (the flow, if it is the only one)
                    if s.threads.len() > 1 {
                        s.threads.pop();
                    } else {
                        self.frame(s).pc = usize::MAX;
                    }
                }
                Target::KnotArgs(k, args) => {
                    // K1b: arguments are evaluated where the divert stands, then bound to the
                    // knot's parameters as temps of the current frame
                    let vals: Vec<V> = args.iter().map(|a| self.eval(s, a)).collect();
                    match self.goto_named(s, &Target::Knot(k.clone()), pc) {
                        Ok(npc) => {
                            let params = self.c.params.get(&k).cloned().unwrap_or_default();
                            for (p, v) in params.iter().zip(vals) {
                                self.frame(s).temps.insert(p.clone(), v);
                            }
                            self.frame(s).pc = npc;
                        }
                        Err(e) => s.error = Some(e),
                    }
                }
                named => match self.goto_named(s, &named, pc) {
                    Ok(npc) => self.frame(s).pc = npc,
                    Err(e) => s.error = Some(e),
                },
            },
            Ins::TunnelCall(t) => match self.goto_named(s, &Target::Knot(t), pc) {
                Ok(npc) => {
                    let out_start = s.out.len();
                    s.threads.last_mut().unwrap().push(Frame { kind: FrameKind::Tunnel, pc: npc, temps: BTreeMap::new(), out_start });
                }
                Err(e) => s.error = Some(e),
            },
            Ins::TunnelRet => {
                let th = s.threads.last_mut().unwrap();
                if th.len() > 1 && th.last().unwrap().kind == FrameKind::Tunnel {
                    th.pop();
                } else {
                    s.error = Some("->-> outside a tunnel".into());
                }
            }
            Ins::TunnelRetTo(t) => {
                // F1b: leave the tunnel, then go to `t` instead of back to the caller
                let th = s.threads.last_mut().unwrap();
                if th.len() > 1 && th.last().unwrap().kind == FrameKind::Tunnel {
                    th.pop();
                    match self.goto_named(s, &t, pc) {
                        Ok(npc) => self.frame(s).pc = npc,
                        Err(e) => s.error = Some(e),
                    }
                } else {
                    s.error = Some("->-> outside a tunnel".into());
                }
            }
            Ins::Thread(t) => {
                // F3: fork; the fork runs `t` in place and is popped when its content ends
                let mut fork = s.threads.last().unwrap().clone();
                match self.goto_named(s, &Target::Knot(t), pc) {
                    Ok(npc) => {
                        fork.last_mut().unwrap().pc = npc;
                        s.threads.push(fork);
                    }
                    Err(e) => s.error = Some(e),
                }
            }
            Ins::CallStmt(e) => {
                let _ = self.eval(s, &e);
                // a call statement is followed by a line end (the text the function printed ends there)
                self.push_eol(s);
            }
            Ins::Return(e) => {
                let v = match e {
                    Some(e) => self.eval(s, &e),
                    None => V::Void,
                };
                let th = s.threads.last_mut().unwrap();
                if th.len() > 1 && th.last().unwrap().kind == FrameKind::Function {
                    th.pop();
                    return Some(v);
                }
                s.error = Some("return outside a function".into());
            }
            Ins::Seq(id, kind, pcs, end) => {
                // L3: n-th evaluation (0-based)
                let n = *s.seq_counts.get(&id).unwrap_or(&0);
                s.seq_counts.insert(id, n + 1);
                let len = pcs.len() as i32;
                let idx = match kind {
                    SeqKind::Stopping => Some(n.min(len - 1)),
                    SeqKind::Cycle => Some(n % len),
                    SeqKind::Once => {
                        if n < len {
                            Some(n)
                        } else {
                            None
                        }
                    }
                };
                self.frame(s).pc = match idx {
                    Some(i) => pcs[i as usize],
                    None => end,
                };
            }
            Ins::Choice(ci) => {
                // W1: conditions are evaluated when the choice is generated
                let mut show = true;
                for c in &ci.conds {
                    if !self.eval(s, c).truthy() {
                        show = false;
                    }
                }
                s.in_string += 1;
                let start = self.choice_text(s, &ci.start);
                let only = self.choice_text(s, &ci.only);
                s.in_string -= 1;
                if !ci.sticky && *s.choice_counts.get(&ci.id).unwrap_or(&0) > 0 {
                    show = false;
                }
                if show {
                    let text = clean_ws(&format!("{start}{only}"));
                    let thread = s.threads.last().unwrap().clone();
                    s.pending.push(Pending { text, visible: !ci.fallback, id: ci.id, label: ci.label.clone(), target: ci.target, thread });
                }
            }
            Ins::CountLabel(l) => {
                *s.counts.entry(l.clone()).or_insert(0) += 1;
                s.last_turn.insert(l, s.turn);
            }
            Ins::FallOff => {
                let th_len = s.threads.last().unwrap().len();
                let kind = s.threads.last().unwrap().last().unwrap().kind.clone();
                if kind == FrameKind::Function && th_len > 1 {
                    s.threads.last_mut().unwrap().pop();
                    return Some(V::Void);
                }
                if s.threads.len() > 1 {
                    // the forked thread's content ended: back to the thread that started it
                    s.threads.pop();
                } else {
                    // K2: the main flow may only run out of content at the top level (implicit
                    // DONE) or when choices are on offer; anything else is a story error
                    if kind == FrameKind::Tunnel || (self.c.region[pc].0.is_some() && s.pending.is_empty()) {
                        s.error = Some("ran out of content".into());
                    }
                    self.frame(s).pc = usize::MAX;
                }
            }
        }
        None
    }

    /// run to the next stop (choices offered, or the end of the flow)
    pub fn run_turn(&self, s: &mut State) -> TurnOut {
        s.out.clear();
        s.snaps.clear();
        s.steps = 0;
        s.ext_calls.clear();
        loop {
            if s.error.is_some() {
                break;
            }
            let pc = s.threads.last().unwrap().last().unwrap().pc;
            if pc == usize::MAX {
                // the flow has stopped
                let visible = s.pending.iter().any(|p| p.visible);
                if !visible
                    && !s.ended
                    && let Some(i) = s.pending.iter().position(|p| !p.visible)
                {
                    // W3: nothing visible on offer: the fallback is followed within the same turn
                    let p = s.pending[i].clone();
                    s.pending.clear();
                    self.take_choice(s, &p, false);
                    continue;
                }
                break;
            }
            if pc >= self.c.ins.len() {
                s.error = Some("pc out of range".into());
                break;
            }
            self.step(s);
        }
        self.cut_lines(s)
    }

    fn take_choice(&self, s: &mut State, p: &Pending, counts_as_turn: bool) {
        s.threads = vec![p.thread.clone()];
        if counts_as_turn {
            s.turn += 1; // K4
        }
        // W4: the choice's own count (and label)
        *s.choice_counts.entry(p.id).or_insert(0) += 1;
        if let Some(l) = &p.label {
            *s.counts.entry(l.clone()).or_insert(0) += 1;
            s.last_turn.insert(l.clone(), s.turn);
        }
        self.frame(s).pc = p.target;
    }

    pub fn choose(&self, s: &mut State, visible_index: usize) -> bool {
        let vis: Vec<Pending> = s.pending.iter().filter(|p| p.visible).cloned().collect();
        let Some(p) = vis.get(visible_index) else { return false };
        s.pending.clear();
        self.take_choice(s, p, true);
        true
    }

    /// T1-T6: cut the turn's output into lines
    fn cut_lines(&self, s: &State) -> TurnOut {
        // apply the glue / line-end rules while appending
        let mut items: Vec<Item> = vec![];
        let mut no_rule: Option<String> = None;
        let has_text = |items: &[Item]| items.iter().any(|i| matches!(i, Item::Text(t) if !t.trim().is_empty()));
        for it in &s.out {
            match it {
                Item::Glue => {
                    // T3: remove line ends (and blank text) back to the last real text
                    let mut j = items.len();
                    while j > 0 {
                        match &items[j - 1] {
                            Item::Mark(_) => j -= 1,
                            Item::Eol(_) => {
                                items.remove(j - 1);
                                j -= 1;
                            }
                            Item::Text(t) if t.trim().is_empty() && t.contains('\n') => {
                                items.remove(j - 1);
                                j -= 1;
                            }
                            _ => break,
                        }
                    }
                    items.push(Item::Glue);
                }
                Item::Eol(i) => {
                    // T2 / T3
                    let glue_active = {
                        let mut g = false;
                        for x in items.iter().rev() {
                            match x {
                                Item::Glue => {
                                    g = true;
                                    break;
                                }
                                Item::Text(t) if !t.trim().is_empty() => break,
                                Item::Eol(_) => break,
                                _ => {}
                            }
                        }
                        g
                    };
                    let ends_in_eol = {
                        let mut e = false;
                        for x in items.iter().rev() {
                            match x {
                                Item::Eol(_) => {
                                    e = true;
                                    break;
                                }
                                Item::Text(t) if !t.trim().is_empty() => break,
                                Item::Tag(_) => break,
                                _ => {}
                            }
                        }
                        e
                    };
                    if glue_active || ends_in_eol || !(has_text(&items) || items.iter().any(|i| matches!(i, Item::Tag(_)))) {
                        continue;
                    }
                    items.push(Item::Eol(*i));
                }
                Item::Text(t) => {
                    if !t.trim().is_empty() {
                        // real text ends a pending glue
                        items.retain(|x| !matches!(x, Item::Glue));
                    }
                    items.push(Item::Text(t.clone()));
                }
                Item::Tag(t) => {
                    // a tag while glue is still waiting for text: the reference runtime then never
                    // lets go of the glue (every later line end of the turn is swallowed) and the
                    // documentation says nothing: no rule, no verdict
                    let glue_pending = items.iter().rev().take_while(|x| !matches!(x, Item::Text(t) if !t.trim().is_empty())).any(|x| matches!(x, Item::Glue));
                    if glue_pending {
                        no_rule = Some("a tag directly after glue".to_string());
                    }
                    items.push(Item::Tag(t.clone()))
                }
                Item::Mark(n) => items.push(Item::Mark(*n)),
            }
        }
        let mut ext_calls = s.ext_calls.clone();
        let final_state = self.visible(s);
        let mut lines: Vec<LineOut> = vec![];
        let mut cur = String::new();
        let mut tags: Vec<String> = vec![];
        let n = items.len();
        for (k, it) in items.iter().enumerate() {
            match it {
                Item::Text(t) => cur.push_str(t),
                Item::Tag(t) => tags.push(t.trim().to_string()),
                Item::Glue => {}
                Item::Mark(c) => {
                    // X3: the lines complete before this call
                    if let Some(call) = ext_calls.get_mut(*c) {
                        call.lines_before = lines.len();
                    }
                }
                Item::Eol(si) => {
                    // T6: the state at this line end, unless nothing (text or tag) follows in the turn
                    let follows = items[k + 1..n].iter().any(|x| matches!(x, Item::Text(t) if !t.trim().is_empty()) || matches!(x, Item::Tag(_)));
                    let state = if follows { s.snaps[*si].clone() } else { final_state.clone() };
                    lines.push(LineOut { text: format!("{}\n", clean_ws(&cur)), tags: std::mem::take(&mut tags), state });
                    cur.clear();
                }
            }
        }
        if !clean_ws(&cur).is_empty() || !tags.is_empty() {
            lines.push(LineOut { text: clean_ws(&cur), tags, state: final_state.clone() });
        }
        TurnOut {
            lines,
            choices: s.pending.iter().filter(|p| p.visible).map(|p| p.text.clone()).collect(),
            ended: s.ended || s.pending.iter().all(|p| !p.visible),
            error: s.error.clone().or(no_rule),
            ext_calls,
        }
    }

    pub fn final_visible(&self, s: &State) -> Visible {
        self.visible(s)
    }
    pub fn n_choices(&self) -> usize {
        self.c.n_choices
    }
    pub fn label_of(&self, id: usize) -> Option<&String> {
        self.c.label_of_choice.get(&id)
    }
    pub fn functions(&self) -> &Vec<String> {
        &self.c.functions
    }
    pub fn first_stitch(&self, k: &str) -> Option<&String> {
        self.c.first_stitch.get(k)
    }
}

/// T4: runs of spaces/tabs collapse to one space, spaces at the start of the line and before the
/// line end disappear
pub fn clean_ws(s: &str) -> String {
    let mut out = String::new();
    let mut pending_space = false;
    for c in s.chars() {
        if c == ' ' || c == '\t' {
            pending_space = true;
        } else {
            if pending_space && !out.is_empty() {
                out.push(' ');
            }
            pending_space = false;
            out.push(c);
        }
    }
    out
}

/// X2: the pure function every bound external computes in the harness (re-stated here, not shared):
/// `*_void` returns nothing, `*_str` returns `<a|b|>`, otherwise 100 + 10*first + the other arguments
pub fn ext_value(name: &str, args: &[V]) -> V {
    if name.ends_with("_void") {
        return V::Void;
    }
    if name.ends_with("_str") {
        let mut t = String::from("<");
        for a in args {
            t.push_str(&a.print());
            t.push('|');
        }
        t.push('>');
        return V::Str(t);
    }
    let mut acc: i32 = 100;
    for (i, a) in args.iter().enumerate() {
        let v = match a {
            V::Int(i) => *i,
            V::Bool(b) => *b as i32,
            _ => 7,
        };
        acc = acc.wrapping_add(v.wrapping_mul(if i == 0 { 10 } else { 1 }));
    }
    V::Int(acc)
}
