//! One real `Story` instance plus the harness callbacks, the host-call alphabet (`Op`)
//! and the observation taken through public getters only (`Obs` = a JSON value).
use bladeink::{
    story::{
        Story,
        errors::{ErrorHandler, ErrorType},
        external_functions::ExternalFunction,
        variable_observer::VariableObserver,
    },
    story_error::StoryError,
    value_type::ValueType,
    verif,
};
use serde_json::{Map, Value, json};
use std::{
    cell::{Cell, RefCell},
    panic::{AssertUnwindSafe, catch_unwind},
    rc::Rc,
};

use crate::prog::Prog;

pub const DEFAULT_SEED: i32 = 42;
/// `Setup.seed` value that means "leave the story seed to the runtime"
pub const NO_FORCED_SEED: i32 = i32::MIN;
pub const DEFAULT_FUEL: u64 = 60_000;

thread_local! {
    static LAST_PANIC: RefCell<String> = const { RefCell::new(String::new()) };
    static FUEL_OVERRIDE: Cell<Option<u64>> = const { Cell::new(None) };
}

/// per-thread step budget given to every new instance (None = DEFAULT_FUEL)
pub fn set_fuel_override(f: Option<u64>) {
    FUEL_OVERRIDE.with(|x| x.set(f));
}

/// Install (once per process) a panic hook that records location+message instead of printing.
pub fn install_quiet_panic_hook() {
    use std::sync::Once;
    static ONCE: Once = Once::new();
    ONCE.call_once(|| {
        std::panic::set_hook(Box::new(|info| {
            let loc = info
                .location()
                .map(|l| format!("{}:{}", l.file(), l.line()))
                .unwrap_or_default();
            let msg = if let Some(s) = info.payload().downcast_ref::<&str>() {
                s.to_string()
            } else if let Some(s) = info.payload().downcast_ref::<String>() {
                s.clone()
            } else {
                "<non-string panic>".to_string()
            };
            LAST_PANIC.with(|p| *p.borrow_mut() = format!("{loc}: {msg}"));
        }));
    });
}

pub fn last_panic() -> String {
    LAST_PANIC.with(|p| p.borrow().clone())
}

/// Run `f`, turning a panic into `Err(location: message)`.
pub fn guarded<T>(f: impl FnOnce() -> T) -> Result<T, String> {
    install_quiet_panic_hook();
    match catch_unwind(AssertUnwindSafe(f)) {
        Ok(v) => Ok(v),
        Err(_) => Err(last_panic()),
    }
}

/// Normalise a panic string for classification: strip the /repo prefix and line numbers.
pub fn panic_class(p: &str) -> String {
    let p = p.replace("/repo/", "");
    // "runtime/src/x.rs:123: message" -> "runtime/src/x.rs: message"
    let mut out = String::new();
    let mut parts = p.splitn(2, ": ");
    let loc = parts.next().unwrap_or("");
    let msg = parts.next().unwrap_or("");
    let file = loc.split(':').next().unwrap_or(loc);
    out.push_str(file);
    out.push_str(": ");
    // drop digits from message so "index 5 out of range for len 3" classes collapse, and quoted
    // input fragments (`...`) so that the class does not depend on the input text
    let mut last_hash = false;
    let mut in_tick = false;
    for c in msg.chars() {
        if c == '`' {
            in_tick = !in_tick;
            if in_tick {
                out.push_str("`..`");
            }
            continue;
        }
        if in_tick {
            continue;
        }
        if c.is_ascii_digit() {
            if !last_hash {
                out.push('#');
                last_hash = true;
            }
        } else {
            out.push(c);
            last_hash = false;
        }
    }
    if out.len() > 160 {
        let mut cut = 160;
        while !out.is_char_boundary(cut) {
            cut -= 1;
        }
        out.truncate(cut);
    }
    out
}

#[derive(Clone, Debug, PartialEq)]
pub enum Val {
    Int(i32),
    Bool(bool),
    Float(f32),
    Str(String),
    /// a divert-target value (not an allowed host argument type)
    Divert(String),
    /// `()`: a list without items and without origins; assigned over a list, the stored value
    /// keeps that list's origins, so what is stored differs from what was passed
    EmptyList,
}

impl Val {
    pub fn to_vt(&self) -> ValueType {
        match self {
            Val::Int(i) => ValueType::Int(*i),
            Val::Bool(b) => ValueType::Bool(*b),
            Val::Float(f) => ValueType::Float(*f),
            Val::Str(s) => ValueType::new::<&str>(s),
            Val::Divert(s) => ValueType::DivertTarget(
                verif::audit::Path::new_with_components_string(Some(s)),
            ),
            Val::EmptyList => ValueType::List(verif::audit::InkList::new()),
        }
    }
    pub fn to_json(&self) -> Value {
        match self {
            Val::Int(i) => json!({"int": i}),
            Val::Bool(b) => json!({"bool": b}),
            Val::Float(f) => json!({"float": f}),
            Val::Str(s) => json!({"str": s}),
            Val::Divert(s) => json!({"divert": s}),
            Val::EmptyList => json!({"empty_list": true}),
        }
    }
    pub fn from_json(v: &Value) -> Val {
        if let Some(i) = v.get("int") {
            Val::Int(i.as_i64().unwrap() as i32)
        } else if let Some(b) = v.get("bool") {
            Val::Bool(b.as_bool().unwrap())
        } else if let Some(f) = v.get("float") {
            Val::Float(f.as_f64().unwrap() as f32)
        } else if let Some(s) = v.get("str") {
            Val::Str(s.as_str().unwrap().to_string())
        } else if v.get("empty_list").is_some() {
            Val::EmptyList
        } else {
            Val::Divert(v.get("divert").unwrap().as_str().unwrap().to_string())
        }
    }
}

/// Host calls. Argument domains are tiny and chosen from the program.
#[derive(Clone, Debug, PartialEq)]
pub enum Op {
    Cont,
    ContMax,
    /// one `continue_async` slice that pauses after `k` interpreter steps (virtual clock)
    ContAsync(u64),
    /// finish the current line with a blocking-style call: continue_async(0.0)
    ContAsyncFinish,
    Choose(usize),
    ChoosePath(String, bool),
    ChoosePathArgs(String, bool, Vec<Val>),
    SwitchFlow(String),
    SwitchDefault,
    RemoveFlow(String),
    /// replace the instance by Story::new + load_state(own save) (bindings/observers re-attached)
    LoadFresh,
    /// load own save into the same instance
    LoadInto,
    /// load arbitrary text into the same instance
    LoadText(String),
    Reset,
    Eval(String, Vec<Val>),
    SetVar(String, Val),
    Observe(usize, String),
    Unobserve(usize, Option<String>),
    Bind(String, bool),
    /// bind a *different* handler (returns -999, logs "extalt:") — used as an invalid call on an
    /// already bound name: if it is refused the original handler must stay in place
    BindAlt(String, bool),
    Unbind(String),
    SetHandler,
    AllowFallbacks(bool),
    /// getters that may be refused while async
    GetText,
    GetTags,
    Save,
}

impl Op {
    pub fn to_json(&self) -> Value {
        match self {
            Op::Cont => json!("Cont"),
            Op::ContMax => json!("ContMax"),
            Op::ContAsync(k) => json!({"ContAsync": k}),
            Op::ContAsyncFinish => json!("ContAsyncFinish"),
            Op::Choose(i) => json!({"Choose": i}),
            Op::ChoosePath(p, r) => json!({"ChoosePath": [p, r]}),
            Op::ChoosePathArgs(p, r, a) => {
                json!({"ChoosePathArgs": [p, r, a.iter().map(|v| v.to_json()).collect::<Vec<_>>()]})
            }
            Op::SwitchFlow(f) => json!({"SwitchFlow": f}),
            Op::SwitchDefault => json!("SwitchDefault"),
            Op::RemoveFlow(f) => json!({"RemoveFlow": f}),
            Op::LoadFresh => json!("LoadFresh"),
            Op::LoadInto => json!("LoadInto"),
            Op::LoadText(t) => json!({"LoadText": t}),
            Op::Reset => json!("Reset"),
            Op::Eval(f, a) => {
                json!({"Eval": [f, a.iter().map(|v| v.to_json()).collect::<Vec<_>>()]})
            }
            Op::SetVar(n, v) => json!({"SetVar": [n, v.to_json()]}),
            Op::Observe(o, v) => json!({"Observe": [o, v]}),
            Op::Unobserve(o, v) => json!({"Unobserve": [o, v]}),
            Op::Bind(f, s) => json!({"Bind": [f, s]}),
            Op::BindAlt(f, s) => json!({"BindAlt": [f, s]}),
            Op::Unbind(f) => json!({"Unbind": f}),
            Op::SetHandler => json!("SetHandler"),
            Op::AllowFallbacks(b) => json!({"AllowFallbacks": b}),
            Op::GetText => json!("GetText"),
            Op::GetTags => json!("GetTags"),
            Op::Save => json!("Save"),
        }
    }

    pub fn from_json(v: &Value) -> Op {
        if let Some(s) = v.as_str() {
            return match s {
                "Cont" => Op::Cont,
                "ContMax" => Op::ContMax,
                "ContAsyncFinish" => Op::ContAsyncFinish,
                "SwitchDefault" => Op::SwitchDefault,
                "LoadFresh" => Op::LoadFresh,
                "LoadInto" => Op::LoadInto,
                "Reset" => Op::Reset,
                "SetHandler" => Op::SetHandler,
                "GetText" => Op::GetText,
                "GetTags" => Op::GetTags,
                "Save" => Op::Save,
                _ => panic!("bad op {s}"),
            };
        }
        let o = v.as_object().unwrap();
        let (k, a) = o.iter().next().unwrap();
        let vals = |x: &Value| x.as_array().unwrap().iter().map(Val::from_json).collect::<Vec<_>>();
        match k.as_str() {
            "ContAsync" => Op::ContAsync(a.as_u64().unwrap()),
            "Choose" => Op::Choose(a.as_u64().unwrap() as usize),
            "ChoosePath" => Op::ChoosePath(a[0].as_str().unwrap().into(), a[1].as_bool().unwrap()),
            "ChoosePathArgs" => Op::ChoosePathArgs(
                a[0].as_str().unwrap().into(),
                a[1].as_bool().unwrap(),
                vals(&a[2]),
            ),
            "SwitchFlow" => Op::SwitchFlow(a.as_str().unwrap().into()),
            "RemoveFlow" => Op::RemoveFlow(a.as_str().unwrap().into()),
            "LoadText" => Op::LoadText(a.as_str().unwrap().into()),
            "Eval" => Op::Eval(a[0].as_str().unwrap().into(), vals(&a[1])),
            "SetVar" => Op::SetVar(a[0].as_str().unwrap().into(), Val::from_json(&a[1])),
            "Observe" => Op::Observe(a[0].as_u64().unwrap() as usize, a[1].as_str().unwrap().into()),
            "Unobserve" => Op::Unobserve(
                a[0].as_u64().unwrap() as usize,
                a[1].as_str().map(|s| s.to_string()),
            ),
            "Bind" => Op::Bind(a[0].as_str().unwrap().into(), a[1].as_bool().unwrap()),
            "BindAlt" => Op::BindAlt(a[0].as_str().unwrap().into(), a[1].as_bool().unwrap()),
            "Unbind" => Op::Unbind(a.as_str().unwrap().into()),
            "AllowFallbacks" => Op::AllowFallbacks(a.as_bool().unwrap()),
            _ => panic!("bad op {k}"),
        }
    }

    /// short kind name used in violation classes
    pub fn kind(&self) -> &'static str {
        match self {
            Op::Cont => "Cont",
            Op::ContMax => "ContMax",
            Op::ContAsync(_) => "ContAsync",
            Op::ContAsyncFinish => "ContAsyncFinish",
            Op::Choose(_) => "Choose",
            Op::ChoosePath(..) => "ChoosePath",
            Op::ChoosePathArgs(..) => "ChoosePathArgs",
            Op::SwitchFlow(_) => "SwitchFlow",
            Op::SwitchDefault => "SwitchDefault",
            Op::RemoveFlow(_) => "RemoveFlow",
            Op::LoadFresh => "LoadFresh",
            Op::LoadInto => "LoadInto",
            Op::LoadText(_) => "LoadText",
            Op::Reset => "Reset",
            Op::Eval(..) => "Eval",
            Op::SetVar(..) => "SetVar",
            Op::Observe(..) => "Observe",
            Op::Unobserve(..) => "Unobserve",
            Op::Bind(..) => "Bind",
            Op::BindAlt(..) => "BindAlt",
            Op::Unbind(_) => "Unbind",
            Op::SetHandler => "SetHandler",
            Op::AllowFallbacks(_) => "AllowFallbacks",
            Op::GetText => "GetText",
            Op::GetTags => "GetTags",
            Op::Save => "Save",
        }
    }
}

pub fn hist_to_json(h: &[Op]) -> Value {
    Value::Array(h.iter().map(|o| o.to_json()).collect())
}
pub fn hist_from_json(v: &Value) -> Vec<Op> {
    v.as_array().unwrap().iter().map(Op::from_json).collect()
}

/// Result of one host call, as an observation: "ok", "ok:<value>", "err:<Kind>", "panic:<class>".
pub type Res = String;

pub fn err_kind(e: &StoryError) -> &'static str {
    match e {
        StoryError::InvalidStoryState(_) => "InvalidStoryState",
        StoryError::BadJson(_) => "BadJson",
        StoryError::BadArgument(_) => "BadArgument",
    }
}

/// The plain form: what Ink's rules (refint, the C07 evaluator) define for a value.
pub fn render_vt(v: &ValueType) -> String {
    render_vt_with(v, false)
}

/// The lockstep form: as `render_vt`, and an empty list also shows the LISTs it remembers
/// (its origin names), which LIST_ALL / LIST_INVERT and the save format depend on. Used where two
/// runs of the implementation are compared with each other (observed globals, observer events).
pub fn render_vt_o(v: &ValueType) -> String {
    render_vt_with(v, true)
}

fn render_vt_with(v: &ValueType, origins: bool) -> String {
    match v {
        ValueType::Bool(b) => format!("Bool({b})"),
        ValueType::Int(i) => format!("Int({i})"),
        ValueType::Float(f) => format!("Float({f:?})"),
        ValueType::String(s) => format!("Str({:?})", s.string),
        ValueType::List(l) => {
            let mut items: Vec<String> = l
                .items
                .iter()
                .map(|(k, v)| format!("{}={}", k.get_full_name(), v))
                .collect();
            items.sort();
            if origins && items.is_empty() {
                // an empty list still knows which LISTs it came from (LIST_ALL / LIST_INVERT use it)
                let mut o = l.get_origin_names();
                o.sort();
                o.dedup();
                if !o.is_empty() {
                    return format!("List[]of({})", o.join(","));
                }
            }
            format!("List[{}]", items.join(","))
        }
        ValueType::DivertTarget(p) => format!("Divert({p})"),
        ValueType::VariablePointer(_) => "VarPtr".to_string(),
    }
}

struct SharedLog {
    events: RefCell<Vec<String>>,
    lines_delivered: Cell<usize>,
}

struct Observer {
    id: usize,
    log: Rc<SharedLog>,
}
impl VariableObserver for Observer {
    fn changed(&mut self, variable_name: &str, value: &ValueType) {
        let l = self.log.lines_delivered.get();
        self.log.events.borrow_mut().push(format!(
            "obs:o{}:{}={}@{}",
            self.id,
            variable_name,
            render_vt_o(value),
            l
        ));
    }
}

struct Handler {
    log: Rc<SharedLog>,
}
impl ErrorHandler for Handler {
    fn error(&mut self, message: &str, error_type: ErrorType) {
        let t = if error_type == ErrorType::Error { "E" } else { "W" };
        self.log.events.borrow_mut().push(format!("handler:{t}:{message}"));
    }
}

/// Deterministic external: returns a fixed function of its arguments and logs the call with the
/// number of lines delivered to the host so far.
struct Ext {
    log: Rc<SharedLog>,
}
impl ExternalFunction for Ext {
    fn call(&mut self, func_name: &str, args: Vec<ValueType>) -> Option<ValueType> {
        let rendered: Vec<String> = args.iter().map(render_vt).collect();
        self.log.events.borrow_mut().push(format!(
            "ext:{}({})@{}",
            func_name,
            rendered.join(","),
            self.log.lines_delivered.get()
        ));
        ext_result(func_name, &args)
    }
}

/// A second, distinguishable handler: only ever offered for a name that is already bound, so a
/// correct story never calls it.
struct ExtAlt {
    log: Rc<SharedLog>,
}
impl ExternalFunction for ExtAlt {
    fn call(&mut self, func_name: &str, _args: Vec<ValueType>) -> Option<ValueType> {
        self.log.events.borrow_mut().push(format!("extalt:{func_name}"));
        Some(ValueType::Int(-999))
    }
}

/// The pure function every bound external computes (shared with reference models).
pub fn ext_result(func_name: &str, args: &[ValueType]) -> Option<ValueType> {
    if func_name.ends_with("_void") {
        return None;
    }
    if func_name.ends_with("_str") {
        let mut s = String::from("<");
        for a in args {
            s.push_str(&a.coerce_to_string().unwrap_or_else(|_| "?".into()));
            s.push('|');
        }
        s.push('>');
        return Some(ValueType::new::<&str>(&s));
    }
    // default: 100 + 10*first + second ... (ints), non-ints count as 7
    let mut acc: i32 = 100;
    for (i, a) in args.iter().enumerate() {
        let v = a.coerce_to_int().unwrap_or(7);
        acc = acc.wrapping_add(v.wrapping_mul(if i == 0 { 10 } else { 1 }));
    }
    Some(ValueType::Int(acc))
}

#[derive(Clone, Debug, Default)]
pub struct Setup {
    /// bind every EXTERNAL of the program as (lookahead_safe)
    pub bind_externals: Option<bool>,
    pub allow_fallbacks: bool,
    pub handler: bool,
    /// (observer id, variable) registrations made right after construction
    pub observers: Vec<(usize, String)>,
    pub seed: Option<i32>,
}

pub struct Inst {
    pub story: Option<Story>,
    pub prog: Rc<Prog>,
    pub setup: Setup,
    log: Rc<SharedLog>,
    observers: Vec<Rc<RefCell<dyn VariableObserver>>>,
    observer_regs: Vec<(usize, String)>,
    bound: Vec<(String, bool)>,
    handler_set: bool,
    fallbacks: bool,
    /// set once a host call panicked: the instance is poisoned and never used again
    pub dead: Option<String>,
    pub fuel_exhausted: bool,
    pub async_pending: bool,
    /// interpreter steps executed by the last `apply`
    pub last_steps: u64,
}

pub const N_OBSERVERS: usize = 3;

impl Inst {
    pub fn new(prog: &Rc<Prog>, setup: &Setup) -> Result<Inst, String> {
        // seed = Some(i32::MIN): do NOT force the story seed (C03's self-seeding programs: the
        // seed then comes from rand::rng(), i.e. from the entropy the getrandom shim hands out)
        verif::set_forced_seed(if setup.seed == Some(NO_FORCED_SEED) { None } else { Some(setup.seed.unwrap_or(DEFAULT_SEED)) });
        verif::set_fuel(Some(FUEL_OVERRIDE.with(|f| f.get()).unwrap_or(DEFAULT_FUEL)));
        verif::set_async_budget(None);
        let log = Rc::new(SharedLog {
            events: RefCell::new(Vec::new()),
            lines_delivered: Cell::new(0),
        });
        let story = match guarded(|| Story::new(&prog.json)) {
            Ok(Ok(s)) => s,
            Ok(Err(e)) => return Err(format!("err:{}:{}", err_kind(&e), e)),
            Err(p) => return Err(format!("panic:{p}")),
        };
        let mut observers: Vec<Rc<RefCell<dyn VariableObserver>>> = Vec::new();
        for id in 0..N_OBSERVERS {
            observers.push(Rc::new(RefCell::new(Observer {
                id,
                log: log.clone(),
            })));
        }
        let mut inst = Inst {
            story: Some(story),
            prog: prog.clone(),
            setup: setup.clone(),
            log,
            observers,
            observer_regs: Vec::new(),
            bound: Vec::new(),
            handler_set: false,
            fallbacks: false,
            dead: None,
            fuel_exhausted: false,
            async_pending: false,
            last_steps: 0,
        };
        if setup.allow_fallbacks {
            inst.apply(&Op::AllowFallbacks(true));
        }
        if let Some(safe) = setup.bind_externals {
            for e in prog.externals.clone() {
                inst.apply(&Op::Bind(e, safe));
            }
        }
        if setup.handler {
            inst.apply(&Op::SetHandler);
        }
        for (o, v) in setup.observers.clone() {
            inst.apply(&Op::Observe(o, v));
        }
        Ok(inst)
    }

    pub fn build(prog: &Rc<Prog>, setup: &Setup, hist: &[Op]) -> Result<(Inst, Vec<Res>), String> {
        let mut i = Inst::new(prog, setup)?;
        let mut rs = Vec::with_capacity(hist.len());
        for op in hist {
            rs.push(i.apply(op));
        }
        Ok((i, rs))
    }

    /// Callback log. The order in which one continue notifies *different* variables is not
    /// specified by any property (it follows a hash-set iteration), so every maximal run of
    /// consecutive observer notifications is sorted.
    pub fn events(&self) -> Vec<String> {
        let mut ev = self.log.events.borrow().clone();
        let mut i = 0;
        while i < ev.len() {
            if ev[i].starts_with("obs:") {
                let mut j = i;
                while j < ev.len() && ev[j].starts_with("obs:") {
                    j += 1;
                }
                ev[i..j].sort();
                i = j;
            } else {
                i += 1;
            }
        }
        ev
    }
    /// raw (unsorted) callback log, in delivery order
    pub fn events_raw(&self) -> Vec<String> {
        self.log.events.borrow().clone()
    }
    /// the (observer, variable) registrations the host believes it has (its own bookkeeping)
    pub fn regs(&self) -> Vec<(usize, String)> {
        self.observer_regs.clone()
    }
    pub fn events_len(&self) -> usize {
        self.log.events.borrow().len()
    }
    pub fn lines_delivered(&self) -> usize {
        self.log.lines_delivered.get()
    }

    fn res_unit(r: Result<(), StoryError>) -> Res {
        match r {
            Ok(()) => "ok".into(),
            Err(e) => format!("err:{}", err_kind(&e)),
        }
    }

    /// Apply one host call. A panic poisons the instance.
    pub fn apply(&mut self, op: &Op) -> Res {
        if let Some(d) = &self.dead {
            return format!("dead:{d}");
        }
        let steps0 = verif::step_count();
        let r = guarded(|| self.apply_inner(op));
        self.last_steps = verif::step_count().wrapping_sub(steps0);
        if verif::fuel_left() == Some(0) {
            self.fuel_exhausted = true;
        }
        match r {
            Ok(r) => r,
            Err(p) => {
                let c = panic_class(&p);
                self.dead = Some(c.clone());
                self.story = None;
                format!("panic:{c}")
            }
        }
    }

    fn apply_inner(&mut self, op: &Op) -> Res {
        let log = self.log.clone();
        let story = self.story.as_mut().unwrap();
        match op {
            Op::Cont => match story.cont() {
                Ok(t) => {
                    log.lines_delivered.set(log.lines_delivered.get() + 1);
                    self.async_pending = false;
                    format!("ok:{t:?}")
                }
                Err(e) => format!("err:{}", err_kind(&e)),
            },
            Op::ContMax => match story.continue_maximally() {
                Ok(t) => {
                    log.lines_delivered
                        .set(log.lines_delivered.get() + t.matches('\n').count());
                    format!("ok:{t:?}")
                }
                Err(e) => format!("err:{}", err_kind(&e)),
            },
            Op::ContAsync(k) => {
                verif::set_async_budget(Some(*k));
                let r = story.continue_async(1.0e9);
                verif::set_async_budget(None);
                match r {
                    Ok(()) => {
                        // finished iff the text getter is available again
                        match story.get_current_text() {
                            Ok(t) => {
                                self.async_pending = false;
                                log.lines_delivered.set(log.lines_delivered.get() + 1);
                                format!("ok:done:{t:?}")
                            }
                            Err(_) => {
                                self.async_pending = true;
                                "ok:pending".into()
                            }
                        }
                    }
                    Err(e) => format!("err:{}", err_kind(&e)),
                }
            }
            Op::ContAsyncFinish => match story.continue_async(0.0) {
                Ok(()) => match story.get_current_text() {
                    Ok(t) => {
                        self.async_pending = false;
                        log.lines_delivered.set(log.lines_delivered.get() + 1);
                        format!("ok:{t:?}")
                    }
                    Err(e) => format!("ok-then-text-err:{}", err_kind(&e)),
                },
                Err(e) => format!("err:{}", err_kind(&e)),
            },
            Op::Choose(i) => Self::res_unit(story.choose_choice_index(*i)),
            Op::ChoosePath(p, reset) => Self::res_unit(story.choose_path_string(p, *reset, None)),
            Op::ChoosePathArgs(p, reset, args) => {
                let a: Vec<ValueType> = args.iter().map(|v| v.to_vt()).collect();
                Self::res_unit(story.choose_path_string(p, *reset, Some(&a)))
            }
            Op::SwitchFlow(f) => Self::res_unit(story.switch_flow(f)),
            Op::SwitchDefault => {
                story.switch_to_default_flow();
                "ok".into()
            }
            Op::RemoveFlow(f) => Self::res_unit(story.remove_flow(f)),
            Op::Save => match story.save_state() {
                Ok(s) => format!("ok:{}", canon_json_str(&s)),
                Err(e) => format!("err:{}", err_kind(&e)),
            },
            Op::LoadInto => match story.save_state() {
                Ok(s) => Self::res_unit(story.load_state(&s)),
                Err(e) => format!("save-err:{}", err_kind(&e)),
            },
            Op::LoadText(t) => Self::res_unit(story.load_state(t)),
            Op::LoadFresh => {
                let s = match story.save_state() {
                    Ok(s) => s,
                    Err(e) => return format!("save-err:{}", err_kind(&e)),
                };
                verif::set_forced_seed(if self.setup.seed == Some(NO_FORCED_SEED) { None } else { Some(self.setup.seed.unwrap_or(DEFAULT_SEED)) });
                let mut fresh = match Story::new(&self.prog.json) {
                    Ok(f) => f,
                    Err(e) => return format!("new-err:{}", err_kind(&e)),
                };
                // re-attach the host-side things a host re-attaches to a new object
                fresh.set_allow_external_function_fallbacks(self.fallbacks);
                for (name, safe) in &self.bound {
                    let _ = fresh.bind_external_function(
                        name,
                        Rc::new(RefCell::new(Ext { log: log.clone() })),
                        *safe,
                    );
                }
                if self.handler_set {
                    fresh.set_error_handler(Rc::new(RefCell::new(Handler { log: log.clone() })));
                }
                for (o, v) in &self.observer_regs {
                    let _ = fresh.observe_variable(v, self.observers[*o].clone());
                }
                let r = fresh.load_state(&s);
                self.story = Some(fresh);
                Self::res_unit(r)
            }
            Op::Reset => {
                let r = story.reset_state();
                if r.is_ok() {
                    // the host starts a new transcript: harness-side bookkeeping only
                    log.events.borrow_mut().clear();
                    log.lines_delivered.set(0);
                    self.async_pending = false;
                }
                Self::res_unit(r)
            }
            Op::Eval(f, args) => {
                let a: Vec<ValueType> = args.iter().map(|v| v.to_vt()).collect();
                let mut out = String::new();
                match story.evaluate_function(f, Some(&a), &mut out) {
                    Ok(v) => format!(
                        "ok:{}:{:?}",
                        v.map(|v| render_vt(&v)).unwrap_or_else(|| "None".into()),
                        out
                    ),
                    Err(e) => format!("err:{}", err_kind(&e)),
                }
            }
            Op::SetVar(n, v) => Self::res_unit(story.set_variable(n, &v.to_vt())),
            Op::Observe(o, v) => {
                let r = story.observe_variable(v, self.observers[*o].clone());
                if r.is_ok() {
                    self.observer_regs.push((*o, v.clone()));
                }
                Self::res_unit(r)
            }
            Op::Unobserve(o, v) => {
                let r = story.remove_variable_observer(&self.observers[*o], v.as_deref());
                if r.is_ok() {
                    match v {
                        Some(v) => {
                            if let Some(p) =
                                self.observer_regs.iter().position(|(a, b)| a == o && b == v)
                            {
                                self.observer_regs.remove(p);
                            }
                        }
                        None => self.observer_regs.retain(|(a, _)| a != o),
                    }
                }
                Self::res_unit(r)
            }
            Op::Bind(f, safe) => {
                let r = story.bind_external_function(
                    f,
                    Rc::new(RefCell::new(Ext { log: log.clone() })),
                    *safe,
                );
                if r.is_ok() {
                    self.bound.push((f.clone(), *safe));
                }
                Self::res_unit(r)
            }
            Op::BindAlt(f, safe) => {
                let r = story.bind_external_function(
                    f,
                    Rc::new(RefCell::new(ExtAlt { log: log.clone() })),
                    *safe,
                );
                if r.is_ok() {
                    self.bound.push((f.clone(), *safe));
                }
                Self::res_unit(r)
            }
            Op::Unbind(f) => {
                let r = story.unbind_external_function(f);
                if r.is_ok() {
                    self.bound.retain(|(n, _)| n != f);
                }
                Self::res_unit(r)
            }
            Op::SetHandler => {
                story.set_error_handler(Rc::new(RefCell::new(Handler { log: log.clone() })));
                self.handler_set = true;
                "ok".into()
            }
            Op::AllowFallbacks(b) => {
                story.set_allow_external_function_fallbacks(*b);
                self.fallbacks = *b;
                "ok".into()
            }
            Op::GetText => match story.get_current_text() {
                Ok(t) => format!("ok:{t:?}"),
                Err(e) => format!("err:{}", err_kind(&e)),
            },
            Op::GetTags => match story.get_current_tags() {
                Ok(t) => format!("ok:{t:?}"),
                Err(e) => format!("err:{}", err_kind(&e)),
            },
        }
    }

    /// Observation through public getters only. `with_save` adds the canonicalised save.
    pub fn observe(&mut self, with_save: bool) -> Value {
        if let Some(d) = &self.dead {
            return json!({"dead": d});
        }
        let prog = self.prog.clone();
        let events = self.events();
        let lines = self.lines_delivered();
        let story = self.story.as_mut().unwrap();
        let r = guarded(|| {
            let mut m = Map::new();
            m.insert("can_continue".into(), json!(story.can_continue()));
            m.insert(
                "text".into(),
                match story.get_current_text() {
                    Ok(t) => json!(t),
                    Err(e) => json!({"err": err_kind(&e)}),
                },
            );
            m.insert(
                "tags".into(),
                match story.get_current_tags() {
                    Ok(t) => json!(t),
                    Err(e) => json!({"err": err_kind(&e)}),
                },
            );
            let choices: Vec<Value> = story
                .get_current_choices()
                .iter()
                .map(|c| json!({"text": c.text, "tags": c.tags, "index": *c.index.borrow()}))
                .collect();
            m.insert("choices".into(), Value::Array(choices));
            let mut g = Map::new();
            for name in &prog.globals {
                g.insert(
                    name.clone(),
                    match story.get_variable(name) {
                        Some(v) => json!(render_vt_o(&v)),
                        None => Value::Null,
                    },
                );
            }
            m.insert("globals".into(), Value::Object(g));
            let mut c = Map::new();
            for p in &prog.count_paths {
                c.insert(
                    p.clone(),
                    match story.get_visit_count_at_path_string(p) {
                        Ok(n) => json!(n),
                        Err(e) => json!({"err": err_kind(&e)}),
                    },
                );
            }
            m.insert("counts".into(), Value::Object(c));
            m.insert("has_error".into(), json!(story.has_error()));
            m.insert("errors".into(), json!(story.get_current_errors()));
            m.insert("warnings".into(), json!(story.get_current_warnings()));
            m.insert("path".into(), json!(story.get_current_path()));
            m.insert("events".into(), json!(events));
            m.insert("lines".into(), json!(lines));
            if with_save {
                m.insert(
                    "save".into(),
                    match story.save_state() {
                        Ok(s) => canon_json(&s),
                        Err(e) => json!({"err": err_kind(&e)}),
                    },
                );
            }
            Value::Object(m)
        });
        match r {
            Ok(v) => v,
            Err(p) => {
                let c = panic_class(&p);
                self.dead = Some(c.clone());
                self.story = None;
                json!({"dead": c, "in": "observe"})
            }
        }
    }
}

/// Parse a JSON text and re-emit it with recursively sorted keys (canonical form).
pub fn canon_json(s: &str) -> Value {
    match serde_json::from_str::<Value>(s) {
        Ok(mut v) => {
            // `index` of a saved choice is a cache that every get_current_choices() recomputes
            // (choices.rs / progress.rs); it is not part of the state.
            if let Some(flows) = v.get_mut("flows").and_then(|f| f.as_object_mut()) {
                for (_, f) in flows.iter_mut() {
                    if let Some(cs) = f.get_mut("currentChoices").and_then(|c| c.as_array_mut()) {
                        for c in cs {
                            if let Some(o) = c.as_object_mut() {
                                o.remove("index");
                            }
                        }
                    }
                }
            }
            sort_value(&v)
        }
        Err(_) => json!({"unparseable": s}),
    }
}
pub fn canon_json_str(s: &str) -> String {
    canon_json(s).to_string()
}

pub fn sort_value(v: &Value) -> Value {
    match v {
        Value::Object(m) => {
            let mut keys: Vec<&String> = m.keys().collect();
            keys.sort();
            let mut out = Map::new();
            for k in keys {
                out.insert(k.clone(), sort_value(&m[k]));
            }
            Value::Object(out)
        }
        Value::Array(a) => Value::Array(a.iter().map(sort_value).collect()),
        other => other.clone(),
    }
}

/// First differing top-level field of two observations (or nested path for objects).
pub fn first_diff(a: &Value, b: &Value) -> Option<String> {
    if a == b {
        return None;
    }
    match (a, b) {
        (Value::Object(ma), Value::Object(mb)) => {
            let mut keys: Vec<&String> = ma.keys().chain(mb.keys()).collect();
            keys.sort();
            keys.dedup();
            // report in a stable, meaningful order: put "save" and "events" last
            let mut ordered: Vec<&String> = keys
                .iter()
                .copied()
                .filter(|k| k.as_str() != "save" && k.as_str() != "events")
                .collect();
            for k in keys.iter().copied() {
                if k == "events" {
                    ordered.push(k);
                }
            }
            for k in keys.iter().copied() {
                if k == "save" {
                    ordered.push(k);
                }
            }
            for k in ordered {
                let (va, vb) = (ma.get(k), mb.get(k));
                if va != vb {
                    return match (va, vb) {
                        (Some(x @ Value::Object(_)), Some(y @ Value::Object(_))) => {
                            Some(format!("{}.{}", k, first_diff(x, y).unwrap_or_default()))
                        }
                        _ => Some(k.clone()),
                    };
                }
            }
            None
        }
        _ => Some(String::new()),
    }
}
