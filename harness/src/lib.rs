pub mod checks;
pub mod hx;
pub mod inst;
pub mod pool;
pub mod prog;
pub mod report;
