pub mod checks;
pub mod hx;
pub mod inst;
pub mod mutate;
pub mod pool;
pub mod prog;
pub mod report;
