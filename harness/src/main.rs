use serde_json::Value;
use vcore::{
    checks::{self, Tier},
    hx, inst,
    inst::{Inst, Op, Setup},
    pool,
    report::Stats,
};

// exact live-byte accounting for C18 (a thin wrapper around the system allocator)
#[global_allocator]
static ALLOC: checks::c18::Counting = checks::c18::Counting;

fn usage() -> ! {
    eprintln!("usage: vrun <C01..C20> [--tier quick|thorough] [--replay FILE] | vrun pool [name]");
    std::process::exit(2);
}

fn main() {
    inst::install_quiet_panic_hook();
    let args: Vec<String> = std::env::args().collect();
    if args.len() < 2 {
        usage();
    }
    let mut tier = match std::env::var("VERIF_TIER").as_deref() {
        Ok("thorough") => Tier::Thorough,
        _ => Tier::Quick,
    };
    let mut replay: Option<String> = None;
    let mut i = 2;
    while i < args.len() {
        match args[i].as_str() {
            "--tier" => {
                i += 1;
                tier = match args.get(i).map(|s| s.as_str()) {
                    Some("quick") => Tier::Quick,
                    Some("thorough") => Tier::Thorough,
                    _ => usage(),
                };
            }
            "--replay" => {
                i += 1;
                replay = Some(args.get(i).cloned().unwrap_or_else(|| usage()));
            }
            _ => {}
        }
        i += 1;
    }
    let cmd = args[1].as_str();
    if cmd == "pool" {
        pool_cmd(args.get(2).map(|s| s.as_str()));
        return;
    }
    let opt = |name: &str| args.iter().position(|a| a == name).and_then(|p| args.get(p + 1)).cloned();
    if cmd == "c03-worker" {
        let from: usize = opt("--from").and_then(|s| s.parse().ok()).unwrap_or(0);
        let to: usize = opt("--to").and_then(|s| s.parse().ok()).unwrap_or(usize::MAX);
        let dump: Option<usize> = opt("--dump").and_then(|s| s.parse().ok());
        std::process::exit(checks::c03::worker(tier, from, to, dump));
    }
    if cmd == "c06-stateful" {
        std::process::exit(checks::c06::stateful_main());
    }
    if cmd == "c06-worker" {
        let from: usize = opt("--from").and_then(|s| s.parse().ok()).unwrap_or(0);
        let to: usize = opt("--to").and_then(|s| s.parse().ok()).unwrap_or(usize::MAX);
        std::process::exit(checks::c06::worker(tier, from, to));
    }
    if cmd == "c14-worker" {
        let from: usize = opt("--from").and_then(|s| s.parse().ok()).unwrap_or(0);
        let to: usize = opt("--to").and_then(|s| s.parse().ok()).unwrap_or(usize::MAX);
        std::process::exit(checks::c14::worker(tier, from, to));
    }
    if cmd == "c15-worker" {
        let from: usize = opt("--from").and_then(|s| s.parse().ok()).unwrap_or(0);
        let to: usize = opt("--to").and_then(|s| s.parse().ok()).unwrap_or(usize::MAX);
        std::process::exit(checks::c15::worker(tier, from, to));
    }
    if cmd == "c18-worker" {
        let from: usize = opt("--from").and_then(|s| s.parse().ok()).unwrap_or(0);
        let to: usize = opt("--to").and_then(|s| s.parse().ok()).unwrap_or(usize::MAX);
        std::process::exit(checks::c18::worker(tier, from, to));
    }
    if cmd == "c04-emit" {
        let out = opt("--out").unwrap_or_else(|| usage());
        let upto: usize = opt("--upto").and_then(|s| s.parse().ok()).unwrap_or(usize::MAX);
        std::process::exit(checks::c04::emit(tier, &out, upto));
    }
    if let Some(file) = replay {
        let text = std::fs::read_to_string(&file).expect("cannot read replay file");
        let art: Value = serde_json::from_str(&text).expect("replay file is not JSON");
        let f = replay_fn(cmd);
        let r1 = f(&art);
        let r2 = f(&art);
        if r1 != r2 {
            eprintln!("REPLAY DIVERGED (unowned nondeterminism) — machinery error\n--- 1\n{r1}\n--- 2\n{r2}");
            std::process::exit(2);
        }
        println!("{r1}");
        println!("(replayed twice, identical observations)");
        return;
    }
    let code = match checks::dispatch(cmd) {
        Some((run, _)) => run(tier),
        None => usage(),
    };
    std::process::exit(code);
}

fn replay_fn(cmd: &str) -> fn(&Value) -> String {
    match checks::dispatch(cmd) {
        Some((_, replay)) => replay,
        None => usage(),
    }
}

/// debug: compile the pool and print transcripts along the first-choice path
fn pool_cmd(which: Option<&str>) {
    let (progs, rej) = pool::base_programs();
    for (n, e) in &rej {
        println!("!! {n}: {e}");
    }
    let (seg, rej2) = pool::seg_programs(1, pool::SEGMENTS.len());
    for (n, e) in &rej2 {
        println!("!! {n}: {e}");
    }
    for p in progs.iter().chain(seg.iter()) {
        if let Some(w) = which
            && p.name != w
        {
            continue;
        }
        println!("=== {} globals={:?} knots={:?} counts={:?} fns={:?} ext={:?}", p.name, p.globals, p.knots, p.count_paths, p.functions, p.externals);
        let setup = Setup { bind_externals: None, allow_fallbacks: true, ..Default::default() };
        let mut st = Stats::default();
        let sig = |o: &Value, _s: &[Op]| hx::sigma_play(o);
        let mut n = 0;
        if let Err(e) = Inst::new(p, &setup) {
            println!("  CONSTRUCT FAILED: {e}");
        }
        hx::explore(p, &setup, 12, &sig, false, &mut st, &mut |h, rs, o, _i: &mut Inst, _s| {
            n += 1;
            if which.is_some() || h.iter().all(|op| matches!(op, Op::Cont | Op::Choose(0))) {
                if let Some(r) = rs.last() {
                    println!("  {:?} -> {}", h.last().unwrap(), r);
                }
                if o["can_continue"] == false {
                    let ch: Vec<&str> = o["choices"].as_array().unwrap().iter().map(|c| c["text"].as_str().unwrap()).collect();
                    println!("  choices: {:?} errors: {} warnings: {}", ch, o["errors"], o["warnings"]);
                }
            }
            true
        });
        println!("  nodes={} fuel_exhausted={}", n, st.get("fuel_exhausted"));
    }
}
