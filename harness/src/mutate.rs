//! Exhaustively enumerable mutators for inputs that are not programs: Ink source texts (token,
//! line and byte level) and JSON documents (structure level). Every mutator family has an exact
//! count and an index -> mutant function, so a run covers 0..count and a violation is replayed from
//! (document, family, index) alone.
use serde_json::Value;

// ---------------------------------------------------------------------------------------------
// Ink source text

/// split an Ink source into tokens: identifier/number runs, whitespace runs (newlines are their
/// own tokens), multi-character punctuation, single characters
pub fn ink_tokens(src: &str) -> Vec<String> {
    const MULTI: &[&str] = &["->->", "===", "->", "<-", "<>", "==", "!=", "<=", ">=", "&&", "||", "!?", "+=", "-=", "++", "--", "//", "/*", "*/"];
    let chars: Vec<char> = src.chars().collect();
    let mut out = vec![];
    let mut i = 0;
    while i < chars.len() {
        let c = chars[i];
        if c == '\n' {
            out.push("\n".to_string());
            i += 1;
        } else if c.is_whitespace() {
            let mut j = i;
            while j < chars.len() && chars[j].is_whitespace() && chars[j] != '\n' {
                j += 1;
            }
            out.push(chars[i..j].iter().collect());
            i = j;
        } else if c.is_alphanumeric() || c == '_' {
            let mut j = i;
            while j < chars.len() && (chars[j].is_alphanumeric() || chars[j] == '_') {
                j += 1;
            }
            out.push(chars[i..j].iter().collect());
            i = j;
        } else {
            let rest: String = chars[i..(i + 4).min(chars.len())].iter().collect();
            if let Some(m) = MULTI.iter().find(|m| rest.starts_with(**m)) {
                out.push(m.to_string());
                i += m.chars().count();
            } else {
                out.push(c.to_string());
                i += 1;
            }
        }
    }
    out
}

/// replacement alphabet: Ink punctuation and keywords (+ one identifier, number, non-ASCII letter)
pub const INK_ALPHABET: &[&str] = &[
    "->", "->->", "<-", "<>", "*", "+", "-", "=", "==", "===", "(", ")", "[", "]", "{", "}", "|", ":", "~", "#", "\"", ",", ".", "/", "!", "&", "VAR", "LIST", "CONST", "EXTERNAL", "INCLUDE", "function", "return", "temp", "else", "ref", "a", "1", "é", "\\", " ", "\n", "DONE", "END", "not", "TURNS_SINCE", "0.5",
];

#[derive(Clone, Debug)]
pub struct TextMutant {
    pub text: String,
    pub desc: String,
}

/// token-level single edits: for token i: delete, duplicate, swap with the next token, drop its
/// first character, drop its last character, append a letter, replace by each alphabet entry.
/// count = n * (6 + |alphabet|)
pub const TOKEN_EDIT_KINDS: usize = 6;
pub fn token_edit_count(tokens: &[String]) -> usize {
    tokens.len() * (TOKEN_EDIT_KINDS + INK_ALPHABET.len())
}

pub fn token_edit_nth(tokens: &[String], idx: usize) -> TextMutant {
    let per = TOKEN_EDIT_KINDS + INK_ALPHABET.len();
    let (i, k) = (idx / per, idx % per);
    let mut t: Vec<String> = tokens.to_vec();
    let desc;
    match k {
        3 => {
            desc = format!("drop first char of token {i} {:?}", t[i]);
            t[i] = t[i].chars().skip(1).collect();
        }
        4 => {
            desc = format!("drop last char of token {i} {:?}", t[i]);
            let n = t[i].chars().count();
            t[i] = t[i].chars().take(n.saturating_sub(1)).collect();
        }
        5 => {
            desc = format!("append 'x' to token {i} {:?}", t[i]);
            t[i].push('x');
        }
        0 => {
            desc = format!("delete token {i} {:?}", t[i]);
            t.remove(i);
        }
        1 => {
            desc = format!("duplicate token {i} {:?}", t[i]);
            let x = t[i].clone();
            t.insert(i, x);
        }
        2 => {
            desc = format!("swap tokens {i},{} {:?}", i + 1, t[i]);
            if i + 1 < t.len() {
                t.swap(i, i + 1);
            }
        }
        _ => {
            let a = INK_ALPHABET[k - TOKEN_EDIT_KINDS];
            desc = format!("replace token {i} {:?} by {:?}", t[i], a);
            t[i] = a.to_string();
        }
    }
    TextMutant { text: t.concat(), desc }
}

/// line-level single edits: delete, duplicate, swap with next, indent, dedent. count = lines * 5
pub fn line_edit_count(src: &str) -> usize {
    src.lines().count() * 5
}

pub fn line_edit_nth(src: &str, idx: usize) -> TextMutant {
    let mut lines: Vec<String> = src.lines().map(|l| l.to_string()).collect();
    let (i, k) = (idx / 5, idx % 5);
    let desc;
    match k {
        0 => {
            desc = format!("delete line {}", i + 1);
            lines.remove(i);
        }
        1 => {
            desc = format!("duplicate line {}", i + 1);
            let l = lines[i].clone();
            lines.insert(i, l);
        }
        2 => {
            desc = format!("swap lines {},{}", i + 1, i + 2);
            if i + 1 < lines.len() {
                lines.swap(i, i + 1);
            }
        }
        3 => {
            desc = format!("indent line {}", i + 1);
            lines[i] = format!("    {}", lines[i]);
        }
        _ => {
            desc = format!("dedent line {}", i + 1);
            lines[i] = lines[i].trim_start().to_string();
        }
    }
    TextMutant { text: lines.join("\n") + "\n", desc }
}

/// truncation at every char boundary: count = number of chars
pub fn truncation_count(src: &str) -> usize {
    src.chars().count()
}
pub fn truncation_nth(src: &str, idx: usize) -> TextMutant {
    let end = src.char_indices().nth(idx).map(|(b, _)| b).unwrap_or(src.len());
    TextMutant { text: src[..end].to_string(), desc: format!("truncate to {idx} chars") }
}

/// truncation at every *byte* (lossy: a split character becomes U+FFFD) — for loaders taking &str
/// only the char-boundary ones are distinct inputs, so this is for byte-oriented tools (CLI files)
pub fn byte_truncations(src: &str) -> usize {
    src.len()
}

/// token soup: all strings of `len` tokens over the first `a` alphabet entries (mixed radix)
pub fn soup_count(len: usize, a: usize) -> usize {
    a.pow(len as u32)
}
pub fn soup_nth(len: usize, a: usize, mut idx: usize, sep: &str) -> String {
    let mut parts = vec![];
    for _ in 0..len {
        parts.push(INK_ALPHABET[idx % a]);
        idx /= a;
    }
    parts.join(sep)
}

// ---------------------------------------------------------------------------------------------
// JSON structure

/// replacement values for "retype a node"
pub fn json_retypes() -> Vec<Value> {
    use serde_json::json;
    vec![
        Value::Null,
        json!(true),
        json!(0),
        json!(-1),
        json!(2147483648u64),
        json!(9.3e18),
        json!(1e308),
        json!(0.5),
        json!(""),
        json!("x"),
        json!("^"),
        json!("\n"),
        json!([]),
        json!({}),
        json!([[]]),
        json!({"->": "x"}),
    ]
}

/// every node of a document as a path of keys/indices (pre-order)
pub fn json_paths(v: &Value) -> Vec<Vec<PathSeg>> {
    fn rec(v: &Value, cur: &mut Vec<PathSeg>, out: &mut Vec<Vec<PathSeg>>) {
        out.push(cur.clone());
        match v {
            Value::Array(a) => {
                for (i, e) in a.iter().enumerate() {
                    cur.push(PathSeg::Idx(i));
                    rec(e, cur, out);
                    cur.pop();
                }
            }
            Value::Object(m) => {
                for (k, e) in m.iter() {
                    cur.push(PathSeg::Key(k.clone()));
                    rec(e, cur, out);
                    cur.pop();
                }
            }
            _ => {}
        }
    }
    let mut out = vec![];
    rec(v, &mut vec![], &mut out);
    out
}

#[derive(Clone, Debug, PartialEq)]
pub enum PathSeg {
    Key(String),
    Idx(usize),
}

pub fn path_to_string(p: &[PathSeg]) -> String {
    let mut s = String::new();
    for seg in p {
        match seg {
            PathSeg::Key(k) => {
                s.push('/');
                s.push_str(k);
            }
            PathSeg::Idx(i) => {
                s.push('/');
                s.push_str(&i.to_string());
            }
        }
    }
    if s.is_empty() { "/".into() } else { s }
}

/// generalised pointer for classes: indices replaced by '*', flow names etc. kept
pub fn path_class(p: &[PathSeg]) -> String {
    let mut s = String::new();
    for seg in p {
        match seg {
            PathSeg::Key(k) => {
                s.push('/');
                s.push_str(k);
            }
            PathSeg::Idx(_) => s.push_str("/*"),
        }
    }
    if s.is_empty() { "/".into() } else { s }
}

fn get_mut<'a>(v: &'a mut Value, p: &[PathSeg]) -> Option<&'a mut Value> {
    let mut cur = v;
    for seg in p {
        cur = match seg {
            PathSeg::Key(k) => cur.get_mut(k)?,
            PathSeg::Idx(i) => cur.get_mut(*i)?,
        };
    }
    Some(cur)
}

#[derive(Clone, Debug)]
pub struct JsonMutant {
    pub doc: Value,
    pub desc: String,
    /// class-friendly description: generalised pointer + mutation kind
    pub class: String,
}

/// per node: delete, duplicate (arrays: insert copy; objects: copy under key+"2"), swap with next
/// sibling (arrays), rename key (objects), retype to each of json_retypes().
/// kinds per node = 4 + |retypes|
pub fn json_mutation_count(doc: &Value) -> usize {
    json_paths(doc).len() * (4 + json_retypes().len())
}

pub fn json_mutation_nth(doc: &Value, paths: &[Vec<PathSeg>], idx: usize) -> Option<JsonMutant> {
    let retypes = json_retypes();
    let per = 4 + retypes.len();
    let (pi, k) = (idx / per, idx % per);
    let p = &paths[pi];
    if p.is_empty() && k < 4 {
        return None; // root cannot be deleted/duplicated/swapped/renamed
    }
    let mut d = doc.clone();
    let ptr = path_to_string(p);
    let cls = path_class(p);
    if k >= 4 {
        let r = retypes[k - 4].clone();
        let target = get_mut(&mut d, p)?;
        if *target == r {
            return None;
        }
        let rd = r.to_string();
        *target = r;
        return Some(JsonMutant { doc: d, desc: format!("retype {ptr} to {rd}"), class: format!("{cls}:retype={rd}") });
    }
    let (last, parent_path) = p.split_last()?;
    let parent = get_mut(&mut d, parent_path)?;
    match (k, last, parent) {
        (0, PathSeg::Idx(i), Value::Array(a)) => {
            a.remove(*i);
            Some(JsonMutant { doc: d, desc: format!("delete {ptr}"), class: format!("{cls}:delete") })
        }
        (0, PathSeg::Key(key), Value::Object(m)) => {
            m.shift_remove(key);
            Some(JsonMutant { doc: d, desc: format!("delete {ptr}"), class: format!("{cls}:delete") })
        }
        (1, PathSeg::Idx(i), Value::Array(a)) => {
            let x = a[*i].clone();
            a.insert(*i, x);
            Some(JsonMutant { doc: d, desc: format!("duplicate {ptr}"), class: format!("{cls}:duplicate") })
        }
        (1, PathSeg::Key(key), Value::Object(m)) => {
            let x = m[key].clone();
            m.insert(format!("{key}2"), x);
            Some(JsonMutant { doc: d, desc: format!("duplicate {ptr}"), class: format!("{cls}:duplicate") })
        }
        (2, PathSeg::Idx(i), Value::Array(a)) => {
            if i + 1 < a.len() {
                a.swap(*i, i + 1);
                Some(JsonMutant { doc: d, desc: format!("swap {ptr} with next"), class: format!("{cls}:swap") })
            } else {
                None
            }
        }
        (3, PathSeg::Key(key), Value::Object(m)) => {
            let x = m.shift_remove(key)?;
            m.insert(format!("{key}_x"), x);
            Some(JsonMutant { doc: d, desc: format!("rename key {ptr}"), class: format!("{cls}:rename") })
        }
        _ => None,
    }
}
