//! The program pool used by the self-differential (lockstep / projection) properties:
//! hand-written feature programs + bounded exhaustive segment families + the repository corpus.
use crate::prog::{CompileOutcome, Prog};
use std::rc::Rc;

/// Hand-written feature programs. Each is small, terminates on every path (or loops through a
/// choice point), and is chosen so that host-visible boundaries (line ends, choice points) fall
/// inside functions, tunnels, threads, with pending fallbacks, lists, randomness.
pub fn base_sources() -> Vec<(&'static str, &'static str)> {
    vec![
        ("lines", "Hello.\nSecond line. # t1\nThird <>\nline glued. # t2 # t3\n-> END\n"),
        // the same `= ()` statement runs once over a list and once over a number: whatever the
        // first execution leaves behind in the story's content shows in the second
        // values whose saved form can lose something: an emptied list that remembers its LIST, a
        // non-finite float, a list waiting on the evaluation stack while a function prints lines,
        // the "function has printed" mark of a call frame, negative zero equal to a default
        ("save-emptied-list", "LIST L = a, b, c\nVAR l = (a)\n~ l -= a\nfirst\nsecond {LIST_ALL(l)} / {LIST_INVERT(l)}\n-> k\n=== k ===\n~ temp t = (b)\n~ t -= b\nin k\nthird {LIST_ALL(t)} / {LIST_INVERT(t)}\n-> END\n"),
        ("save-float-inf", "VAR x = 100000000000000000000.0\n~ x = x * x\nfirst {x}\nsecond {x}\n~ x = 0.0 - x\nthird {x}\nfourth {x}\n-> END\n"),
        ("save-evalstack-list", "LIST L = a, b, c\nVAR l = (a)\n~ temp y = l + f()\nresult {y}\n-> END\n=== function f() ===\nline one\nline two\n~ return 1\n=== plain ===\nplain\n-> END\n"),
        ("save-fn-blank-line", "VAR e = \"\"\n~ f()\nafter\n-> END\n=== function f() ===\nline one\n{e}\nline three\n"),
        ("save-neg-zero", "VAR x = 0.0\n~ x = x * -1.0\nfirst {x}\nsecond {x}\n-> END\n"),
        ("list-reassign-a", "LIST L = a, b\nVAR y = a\n-> top\n=== top ===\n~ y = ()\nAll:{LIST_ALL(y)}.\n~ y = 0\n+ [again] -> top\n* [stop] -> END\n"),
        ("list-reassign-b", "LIST L = a, b\nVAR y = 0\n-> top\n=== top ===\n~ y = ()\nAll:{LIST_ALL(y)}.\n~ y = a\n+ [again] -> top\n* [stop] -> END\n"),
        // pauses while a forked thread is still running (two threads on the call stack between
        // two lines) and while an expression has an operand waiting (function printing lines)
        (
            "mid-thread",
            r#"VAR total = 0
Start.
<- side(2)
Main after fork.
* main pick
    Main picked {total}.
- Joined {total}.
-> END
=== side(n) ===
Side one {n}.
~ total = total + n
Side two {total}.
Side three.
* side pick
    Side picked {total}.
    -> END
=== function add(a, b) ===
~ return a + b
=== function say(t) ===
said {t}
"#,
        ),
        (
            "mid-expression",
            r#"VAR total = 0
Start.
~ total = 3 + bonus(2)
Total is {total}.
~ total = add(bonus(1), 10) * 2
Now {total}.
* [again] The total was {total}.
- Done.
-> END
=== function bonus(k) ===
Counting the bonus {k}
Still counting
~ return 4 + k
=== function add(a, b) ===
~ return a + b
=== function say(t) ===
said {t}
"#,
        ),
        (
            "vars",
            r#"VAR x = 0
VAR s = "ab"
VAR b = true
VAR f = 1.5
Start {x}.
~ x = x + 5
~ temp t = x * 2
After {x} and {t}.
~ s = s + "cd"
{b: yes|no} {s}
~ b = false
~ f = f * 2
{f} {b: yes|no}
{x > 3:
    big
- else:
    small
}
-> END
"#,
        ),
        (
            "choices",
            r#"VAR n = 0
-> top
=== top ===
Top {n}.
~ n = n + 1
* once [only] chosen
    Took once.
    -> top
+ sticky # ctag
    Took sticky.
    -> top
* {n > 1} cond [c]
    Took cond.
    -> top
* (lab) labelled
    Labelled {lab}.
    -> top
* -> fallback
=== fallback ===
Fallback reached {n}.
-> END
"#,
        ),
        (
            "weave",
            r#"VAR v = 0
Intro.
* A
    In A.
    * * A1
        In A1.
        ~ v = v + 1
    * * A2 [x]
        In A2.
    - - (inner) Inner gather {inner}.
* B [b] end
    In B.
    ~ v = v + 10
- (outer) Outer gather {v}.
* C
* D
    In D.
- Done {outer}.
-> END
"#,
        ),
        (
            "seqs",
            r#"VAR i = 0
-> loop
=== loop ===
~ i = i + 1
Seq {one|two|three} cyc {&a|b} once {!x|y} {i}.
{i < 5: -> loop}
+ [again] -> loop
* [stop] -> END
"#,
        ),
        (
            "shuffle",
            r#"VAR i = 0
-> loop
=== loop ===
~ i = i + 1
Sh {~a|b|c|d} r {RANDOM(1, 6)}.
{i < 4: -> loop}
+ [again]
    ~ i = 0
    -> loop
* [seed]
    ~ SEED_RANDOM(7)
    ~ i = 2
    -> loop
* [stop] -> END
"#,
        ),
        (
            "funcs",
            r#"VAR g = 1
VAR r = 0
Line {add(2, 3)} and {say(g)}.
~ r = add(g, 10)
~ bump(g)
After bump {g} {r}.
~ multi()
Tail {fact(4)}.
-> END
=== function add(a, b) ===
~ return a + b
=== function say(x) ===
said {x}
=== function bump(ref v) ===
~ v = v + 1
=== function multi() ===
first of multi
second of multi {g}
~ g = g + 100
third of multi
=== function fact(n) ===
{ n <= 1:
    ~ return 1
}
~ return n * fact(n - 1)
"#,
        ),
        (
            "tunnels",
            r#"VAR depth = 0
Before.
-> t1 ->
Between {depth}.
-> t2 -> after
=== t1 ===
~ depth = depth + 1
~ temp loc = depth * 3
In t1 {loc}.
-> inner ->
Back in t1 {loc}.
->->
=== inner ===
~ temp loc = 99
Inner {loc}.
* pick one
    Picked one.
* pick two
    Picked two.
- ->->
=== t2 ===
In t2.
->-> elsewhere
=== after ===
After.
-> END
=== elsewhere ===
Elsewhere.
-> END
"#,
        ),
        (
            "threads",
            r#"VAR k = 0
Main start.
<- th1
<- th2(5)
* main choice
    Main chosen {k}.
    -> END
=== th1 ===
Thread one text.
~ temp a = 7
* t1 choice
    T1 chosen {a}.
    ~ k = k + 1
    -> DONE
=== th2(p) ===
Thread two {p}.
+ t2 choice {p}
    T2 chosen {p}.
    ~ k = k + p
    -> END
"#,
        ),
        (
            "lists",
            r#"LIST colors = red, (green), blue
LIST sizes = small, (medium), large
VAR c = ()
VAR e = ()
VAR m = medium
~ c = (red, blue)
Colors {colors} c {c} count {LIST_COUNT(c)}.
~ c += green
~ e = c - c
Now {c} min {LIST_MIN(c)} max {LIST_MAX(c)} all {LIST_ALL(e)}.
~ m++
Size {m} val {LIST_VALUE(m)} inv {LIST_INVERT(c)}.
{c ? red: has red|no red} {c !? (red, green): lacks|has both}
* [clear]
    ~ c = ()
    Cleared {c} all {LIST_ALL(c)}.
* [keep]
    Kept {c}.
- End {LIST_RANGE(LIST_ALL(sizes), 1, 2)} {sizes(3)}.
-> END
"#,
        ),
        (
            "turns",
            r#"-> hub
=== hub ===
Hub visits {hub} since a {TURNS_SINCE(-> a)} cc {CHOICE_COUNT()}.
+ go a -> a
+ {a} go b [{CHOICE_COUNT()}] -> b
* quit -> END
=== a ===
In a {a}.
-> hub
=== b ===
In b, a was {TURNS_SINCE(-> a)} ago.
-> hub
"#,
        ),
        (
            "vardivert",
            r#"VAR target = -> k1
VAR cnt = 0
-> run(-> k2)
=== run(-> next) ===
Run.
~ cnt = cnt + 1
-> next
=== k1 ===
K1 {cnt}.
-> END
=== k2 ===
K2 {cnt}.
~ target = -> k3
-> target
=== k3 ===
K3.
* [again] -> run(-> k1)
* [end] -> END
"#,
        ),
        (
            "stitches",
            r#"-> kn
=== kn ===
= first
First stitch {kn} {kn.first}.
-> second
= second
Second stitch {kn.second}.
* again -> first
* (done_lab) leave
    Leaving {done_lab}.
    -> other.sub
=== other ===
Other top.
-> END
= sub
Other sub {other.sub}.
-> END
"#,
        ),
        (
            "strings",
            r#"VAR s = "x"
VAR t = ""
~ t = "{s}-{val()}"
T is {t}. {s == "x": eq|ne} {t ? "x-": contains|not}
~ s = s + 1
S is {s}.
* ["{s}" choice {val()}]
    Chosen.
- -> END
=== function val() ===
~ return 4
"#,
        ),
        (
            "externs",
            r#"EXTERNAL ext_a(x, y)
EXTERNAL ext_str(x)
VAR got = 0
Line one.
~ got = ext_a(1, 2)
Got {got}.
Inline {ext_a(3, 4)} and {ext_str("q")}.
* pick [{ext_a(5, 6)}]
    After pick {ext_a(7, 8)}.
- -> END
=== function ext_a(x, y) ===
~ return x + y
=== function ext_str(x) ===
~ return "fb"
"#,
        ),
        (
            "fallback_pending",
            r#"VAR z = 0
Start.
* visible
    Visible taken.
    -> more
* ->
    Fell through.
    -> more
=== more ===
~ z = z + 1
More {z}.
* ->
    Auto {z}.
    -> END
"#,
        ),
        (
            "flows",
            r#"VAR shared = 0
VAR fa = 0
VAR fb = 0
Default flow line.
* default choice
    Default chosen.
    -> END
=== flow_a ===
~ fa = fa + 1
~ temp ta = 11
Flow A line {ta}.
Flow A second.
* a one
    A one {fa} {ta}.
    -> flow_a_end
* a two
    A two.
    -> flow_a_end
=== flow_a_end ===
A end.
-> DONE
=== flow_b ===
~ fb = fb + 2
Flow B line.
-> tb ->
* b one
    B one {fb}.
    -> DONE
=== tb ===
In tunnel B.
->->
"#,
        ),
        (
            "errors",
            r#"VAR d = 0
VAR tgt = 0
Start.
* div
    Dividing {10 / d}.
    After.
    -> END
* badvar
    -> tgt
* runout
    Runs out.
* ok
    Fine.
    -> END
"#,
        ),
        (
            "glue_lookahead",
            r#"VAR a = 0
First
~ a = a + 1
<> glued {a}.
Second line.
~ a = a + 1
Third {a}.
-> nxt
=== nxt ===
~ a = a + 1
<> tail {a}
~ a = a + 1
-> END
"#,
        ),
        (
            "func_choice",
            r#"VAR m = 0
-> q
=== q ===
Question {m}.
+ {can()} [opt {lbl(1)}]
    ~ m = m + 1
    -> q
+ [other {lbl(2)}]
    ~ m = m + 2
    {m > 5: -> END}
    -> q
=== function can() ===
~ return m < 3
=== function lbl(n) ===
L{n}
"#,
        ),
        (
            "tags",
            r#"# global tag
# second global
Line with tag # a
# before
Tagged after # b # c
* choice # ct
    Chosen # inner
- End. # last
-> END
"#,
        ),
        (
            "thread_tunnel",
            r#"VAR w = 0
Top.
-> tun ->
After tunnel {w}.
-> END
=== tun ===
~ temp tl = 3
In tun.
<- side(tl)
* tun choice
    Tun chosen {tl}.
    ->->
=== side(n) ===
Side {n}.
* side choice
    Side chosen {n}.
    ~ w = n
    ->->
"#,
        ),
        (
            "listvars",
            r#"LIST fruits = apple, (banana), cherry
LIST veg = (carrot = 4), (daikon = 5), eggplant = 6
VAR basket = ()
VAR mix = ()
~ mix = (apple, carrot)
~ basket = fruits + veg
Basket {basket}.
Min {LIST_MIN(mix)} max {LIST_MAX(mix)} rnd {LIST_RANDOM(basket)}.
~ basket -= banana
~ mix = LIST_ALL(fruits) ^ (apple, cherry)
* [more]
    ~ basket += cherry
    More {basket} {mix}.
* [less]
    ~ basket = ()
    Less {basket} inv {LIST_INVERT(basket)}.
- Fin {basket < mix} {LIST_COUNT(LIST_ALL(veg))}.
-> END
"#,
        ),
        (
            "const_math",
            r#"CONST K = 3
VAR p = 7
VAR q = 2
{p / q} {p % q} {p * K} {p - 10} {-p} {p > q && q > 0} {p == 7 || q == 9} {not (p == 7)}
{POW(2, 3)} {MIN(p, q)} {MAX(p, q)} {FLOOR(2.5)} {CEILING(2.5)} {INT(3.7)} {FLOAT(p)}
~ p += 1
~ q -= 1
{p} {q} {p mod 3}
-> END
"#,
        ),
    ]
}

/// Segment alphabet for the F-seg family: every program is
/// header + `=== main ===` + k segments + tail. Each segment is self-contained.
pub const SEGMENTS: &[(&str, &str)] = &[
    ("text", "Plain text.\n"),
    ("asg", "~ x = x + 1\n"),
    ("glue", "<> glued {x}\n"),
    ("print", "Value {x} {y}.\n"),
    ("tag", "Tagged # tg\n"),
    ("tunnel", "-> tun ->\n"),
    ("fcall", "Call {fn(x)}.\n"),
    ("fstmt", "~ y = fn(y)\n"),
    ("ftext", "~ talk()\n"),
    ("cond", "{x > 1: Big x.|Small x.}\n"),
    ("seq", "{first|second|third} time.\n"),
    ("choice", "* (c1) [pick] Picked {c1}.\n    ~ y = y + 10\n+ stay\n    Stayed.\n- Gathered {x}.\n"),
    ("fallb", "* {x > 100} never\n* -> \n    Fell {x}.\n- Past.\n"),
    ("thread", "<- thr\n* own choice\n    Own.\n- Joined.\n"),
    ("temp", "~ temp t = x * 2\nTemp {t}.\n"),
    ("strv", "~ s = s + \"z\"\nStr {s}.\n"),
];

pub const SEG_HEADER: &str = "VAR x = 0\nVAR y = 0\nVAR s = \"\"\n-> main\n=== main ===\n";
pub const SEG_TAIL: &str = r#"-> fin
=== fin ===
Final {x} {y} {s}.
-> END
=== tun ===
~ x = x + 100
In tunnel {x}.
->->
=== function fn(v) ===
~ return v + 1
=== function talk() ===
Talk one.
~ y = y + 1
Talk two {y}.
=== thr ===
Thread text.
* thread choice
    Thread chosen.
    ~ x = x + 1000
    -> fin
=== function ptext(a) ===
Alpha {a}
<> beta
gamma {fn(a)}
~ return a * 2
=== function pnest(a) ===
~ return fn(fn(a)) + pdepth(2)
=== function pdepth(n) ===
{ n <= 0:
    ~ return 0
}
~ return 1 + pdepth(n - 1)
=== function pstr(t) ===
~ return t + "!"
=== function pbool(b) ===
~ return not b
=== function pfloat(f) ===
~ return f * 2
=== function pread() ===
~ return x + y
"#;

/// Pure functions of the pool programs with the arguments the host passes (C16) and, where it
/// was worked out by hand from the Ink rules, the expected result ("ok:<value>:<text>").
pub fn pure_function_calls() -> Vec<(&'static str, Vec<crate::inst::Val>, Option<&'static str>)> {
    use crate::inst::Val::*;
    vec![
        ("fn", vec![Int(3)], Some("ok:Int(4):\"\"")),
        ("ptext", vec![Int(2)], Some("ok:Int(4):\"Alpha 2 beta\\ngamma 3\\n\"")),
        ("pnest", vec![Int(1)], Some("ok:Int(5):\"\"")),
        ("pstr", vec![Str("q".into())], Some("ok:Str(\"q!\"):\"\"")),
        ("pbool", vec![Bool(true)], Some("ok:Bool(false):\"\"")),
        ("pfloat", vec![Float(1.5)], Some("ok:Float(3.0):\"\"")),
        ("pread", vec![], None),
        ("add", vec![Int(1), Int(2)], Some("ok:Int(3):\"\"")),
        ("say", vec![Str("x".into())], Some("ok:None:\"said x\\n\"")),
        ("fact", vec![Int(4)], Some("ok:Int(24):\"\"")),
        ("val", vec![], Some("ok:Int(4):\"\"")),
        ("can", vec![], None),
        ("lbl", vec![Int(1)], Some("ok:None:\"L1\\n\"")),
    ]
}

/// number of programs in the segment family with `k` slots over the first `a` segments
pub fn seg_count(k: usize, a: usize) -> usize {
    a.pow(k as u32)
}

/// i-th program (mixed-radix decoding): exact bijection index <-> program
pub fn seg_nth(k: usize, a: usize, mut i: usize) -> (String, String) {
    let mut body = String::new();
    let mut name = String::from("seg");
    for _ in 0..k {
        let (n, s) = SEGMENTS[i % a];
        i /= a;
        name.push('-');
        name.push_str(n);
        body.push_str(s);
    }
    (name, format!("{SEG_HEADER}{body}{SEG_TAIL}"))
}

pub fn compile_all(sources: &[(String, String)]) -> (Vec<Rc<Prog>>, Vec<(String, String)>) {
    let mut ok = vec![];
    let mut rej = vec![];
    for (n, s) in sources {
        match Prog::from_source(n, s) {
            CompileOutcome::Ok(p) => ok.push(p),
            CompileOutcome::Rejected(e) => rej.push((n.clone(), format!("rejected: {e}"))),
            CompileOutcome::Panicked(e) => rej.push((n.clone(), format!("compiler panic: {e}"))),
        }
    }
    (ok, rej)
}

pub fn base_programs() -> (Vec<Rc<Prog>>, Vec<(String, String)>) {
    let srcs: Vec<(String, String)> = base_sources()
        .into_iter()
        .map(|(n, s)| (n.to_string(), s.to_string()))
        .collect();
    compile_all(&srcs)
}

pub fn seg_programs(k: usize, a: usize) -> (Vec<Rc<Prog>>, Vec<(String, String)>) {
    let srcs: Vec<(String, String)> = (0..seg_count(k, a)).map(|i| seg_nth(k, a, i)).collect();
    compile_all(&srcs)
}

/// Corpus: (name, source path, reference json path) for every .ink with a reference .ink.json
pub fn corpus_pairs() -> Vec<(String, String, String)> {
    let mut out = vec![];
    let root = std::path::Path::new("/repo/conformance-tests/inkfiles");
    let mut stack = vec![root.to_path_buf()];
    while let Some(d) = stack.pop() {
        let Ok(rd) = std::fs::read_dir(&d) else { continue };
        for e in rd.flatten() {
            let p = e.path();
            if p.is_dir() {
                stack.push(p);
            } else if p.extension().map(|x| x == "ink").unwrap_or(false) {
                let j = p.with_extension("ink.json");
                if j.exists() {
                    let name = p.strip_prefix(root).unwrap().to_string_lossy().to_string();
                    out.push((name, p.to_string_lossy().to_string(), j.to_string_lossy().to_string()));
                }
            }
        }
    }
    out.sort();
    out
}

/// all .ink sources of the corpus (with or without reference json)
pub fn corpus_sources() -> Vec<(String, String)> {
    let mut out = vec![];
    let root = std::path::Path::new("/repo/conformance-tests/inkfiles");
    let mut stack = vec![root.to_path_buf()];
    while let Some(d) = stack.pop() {
        let Ok(rd) = std::fs::read_dir(&d) else { continue };
        for e in rd.flatten() {
            let p = e.path();
            if p.is_dir() {
                stack.push(p);
            } else if p.extension().map(|x| x == "ink").unwrap_or(false) {
                let name = p.strip_prefix(root).unwrap().to_string_lossy().to_string();
                out.push((name, p.to_string_lossy().to_string()));
            }
        }
    }
    out.sort();
    out
}

/// reference-compiled corpus stories as programs (json only), smallest first
pub fn corpus_json_programs(max_bytes: usize) -> Vec<Rc<Prog>> {
    let mut v: Vec<Rc<Prog>> = vec![];
    for (name, _src, j) in corpus_pairs() {
        if let Ok(text) = std::fs::read_to_string(&j) {
            let text = text.trim_start_matches('\u{feff}').to_string();
            if text.len() <= max_bytes {
                let mut p = Prog::from_json(&format!("corpus:{name}"), &text);
                if let Ok(src) = std::fs::read_to_string(&_src) {
                    p.functions = crate::prog::functions_of_source(&src);
                    p.plain_knots = crate::prog::plain_knots_of_source(&src);
                }
                v.push(Rc::new(p));
            }
        }
    }
    v.sort_by_key(|p| p.json.len());
    v
}
