//! A program under test: compiled JSON (+ optional source) and the names the harness observes.
use bladeink_compiler::Compiler;
use serde_json::Value;
use std::rc::Rc;

use crate::inst::guarded;

#[derive(Debug, Clone)]
pub struct Prog {
    pub name: String,
    pub source: Option<String>,
    pub json: String,
    pub globals: Vec<String>,
    /// paths of named, visit-counted containers (knots, stitches, labels, choice targets, gathers)
    pub count_paths: Vec<String>,
    /// root-level named containers except "global decl"
    pub knots: Vec<String>,
    /// `k.s` paths
    pub stitches: Vec<String>,
    /// names of `=== function f(..)` with their parameter counts (from the source, when known)
    pub functions: Vec<(String, usize)>,
    pub externals: Vec<String>,
    /// knots declared without parameters and not as functions (safe ChoosePath / flow targets)
    pub plain_knots: Vec<String>,
}

pub enum CompileOutcome {
    Ok(Rc<Prog>),
    Rejected(String),
    Panicked(String),
}

impl Prog {
    pub fn from_source(name: &str, source: &str) -> CompileOutcome {
        match guarded(|| Compiler::new().compile(source)) {
            Ok(Ok(json)) => {
                let mut p = Prog::from_json(name, &json);
                p.source = Some(source.to_string());
                p.functions = functions_of_source(source);
                p.plain_knots = plain_knots_of_source(source);
                CompileOutcome::Ok(Rc::new(p))
            }
            Ok(Err(e)) => CompileOutcome::Rejected(e.to_string()),
            Err(p) => CompileOutcome::Panicked(p),
        }
    }

    pub fn from_json(name: &str, json: &str) -> Prog {
        let mut p = Prog {
            name: name.to_string(),
            source: None,
            json: json.to_string(),
            globals: vec![],
            count_paths: vec![],
            knots: vec![],
            stitches: vec![],
            functions: vec![],
            externals: vec![],
            plain_knots: vec![],
        };
        if let Ok(v) = serde_json::from_str::<Value>(json)
            && let Some(root) = v.get("root")
        {
            walk(root, "", &mut p, 0);
            if let Some(named) = root.as_array().and_then(|a| a.last()).and_then(|l| l.as_object())
            {
                for (k, c) in named {
                    if k.starts_with('#') {
                        continue;
                    }
                    if k == "global decl" {
                        if let Some(a) = c.as_array() {
                            for e in a {
                                if let Some(n) = e.get("VAR=").and_then(|n| n.as_str())
                                    && !p.globals.iter().any(|g| g == n)
                                {
                                    p.globals.push(n.to_string());
                                }
                            }
                        }
                        continue;
                    }
                    p.knots.push(k.clone());
                    if let Some(sub) =
                        c.as_array().and_then(|a| a.last()).and_then(|l| l.as_object())
                    {
                        for (s, sc) in sub {
                            if !s.starts_with('#') && sc.is_array() {
                                p.stitches.push(format!("{k}.{s}"));
                            }
                        }
                    }
                }
            }
        }
        p.globals.sort();
        p.knots.sort();
        p.stitches.sort();
        p.count_paths.sort();
        p.count_paths.dedup();
        if p.count_paths.len() > 120 {
            // keep the shortest paths (knots, stitches, top-level labels)
            p.count_paths.sort_by_key(|s| (s.matches('.').count(), s.clone()));
            p.count_paths.truncate(120);
            p.count_paths.sort();
        }
        p.externals.sort();
        p.externals.dedup();
        p
    }
}

fn walk(c: &Value, path: &str, p: &mut Prog, depth: usize) {
    let Some(arr) = c.as_array() else { return };
    if depth > 64 {
        return;
    }
    let n = arr.len();
    for (i, e) in arr.iter().enumerate() {
        let is_last = i + 1 == n;
        if let Some(o) = e.as_object() {
            if is_last {
                // named content + flags
                for (k, sub) in o {
                    if k.starts_with('#') || !sub.is_array() {
                        continue;
                    }
                    let sp = join(path, k);
                    note_counted(sub, &sp, p);
                    walk(sub, &sp, p, depth + 1);
                }
            } else if let Some(x) = o.get("x()").and_then(|x| x.as_str()) {
                p.externals.push(x.to_string());
            }
        } else if e.is_array() {
            // unnamed or "#n"-named sub-container in content
            let name = e
                .as_array()
                .and_then(|a| a.last())
                .and_then(|l| l.as_object())
                .and_then(|o| o.get("#n"))
                .and_then(|n| n.as_str());
            let sp = match name {
                Some(nm) => {
                    let sp = join(path, nm);
                    note_counted(e, &sp, p);
                    sp
                }
                None => join(path, &i.to_string()),
            };
            walk(e, &sp, p, depth + 1);
        }
    }
}

fn note_counted(c: &Value, path: &str, p: &mut Prog) {
    let flags = c
        .as_array()
        .and_then(|a| a.last())
        .and_then(|l| l.as_object())
        .and_then(|o| o.get("#f"))
        .and_then(|f| f.as_i64())
        .unwrap_or(0);
    if flags & 1 == 1 && path != "global decl" {
        p.count_paths.push(path.to_string());
    }
}

fn join(a: &str, b: &str) -> String {
    if a.is_empty() { b.to_string() } else { format!("{a}.{b}") }
}

/// `=== function name(a, b)` headers of a source text.
pub fn functions_of_source(src: &str) -> Vec<(String, usize)> {
    let mut out = vec![];
    for line in src.lines() {
        let t = line.trim_start();
        if !t.starts_with("==") {
            continue;
        }
        let t = t.trim_start_matches('=').trim_start();
        if let Some(rest) = t.strip_prefix("function") {
            let rest = rest.trim_start();
            let name: String = rest
                .chars()
                .take_while(|c| c.is_alphanumeric() || *c == '_')
                .collect();
            if name.is_empty() {
                continue;
            }
            let params = match (rest.find('('), rest.find(')')) {
                (Some(a), Some(b)) if b > a => {
                    let inner = rest[a + 1..b].trim();
                    if inner.is_empty() { 0 } else { inner.split(',').count() }
                }
                _ => 0,
            };
            out.push((name, params));
        }
    }
    out
}

/// `=== name ===` headers without parameters (not functions)
pub fn plain_knots_of_source(src: &str) -> Vec<String> {
    let mut out = vec![];
    for line in src.lines() {
        let t = line.trim_start();
        if !t.starts_with("==") {
            continue;
        }
        let t = t.trim_start_matches('=').trim_start();
        if t.starts_with("function") || t.contains('(') {
            continue;
        }
        let name: String = t.chars().take_while(|c| c.is_alphanumeric() || *c == '_').collect();
        if !name.is_empty() {
            out.push(name);
        }
    }
    out
}
