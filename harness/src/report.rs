//! Violations, known-findings filter, evidence files, statistics and the parallel case runner.
use serde_json::{Map, Value, json};
use std::{
    collections::{BTreeMap, HashSet},
    hash::{Hash, Hasher},
    path::PathBuf,
    sync::{
        Mutex,
        atomic::{AtomicBool, AtomicUsize, Ordering},
    },
    time::{Duration, Instant},
};

pub const VERIF_DIR: &str = "/verif";

#[derive(Clone, Debug)]
pub struct Violation {
    pub property: String,
    /// computed from the input (never from source line numbers); fine enough that two different
    /// defects do not share it
    pub class: String,
    pub what: String,
    /// everything needed to replay: {"check": .., "program": .., "history": .., ...}
    pub artefact: Value,
}

#[derive(Default, Clone)]
pub struct Stats {
    pub counters: BTreeMap<String, u64>,
    pub distinct: BTreeMap<String, HashSet<u64>>,
    pub samples: Vec<Value>,
    pub violations: Vec<Violation>,
    pub notes: Vec<String>,
}

pub fn hash_str(s: &str) -> u64 {
    let mut h = std::collections::hash_map::DefaultHasher::new();
    s.hash(&mut h);
    h.finish()
}

impl Stats {
    pub fn inc(&mut self, k: &str) {
        self.add(k, 1);
    }
    pub fn add(&mut self, k: &str, n: u64) {
        *self.counters.entry(k.to_string()).or_insert(0) += n;
    }
    pub fn max(&mut self, k: &str, n: u64) {
        let e = self.counters.entry(k.to_string()).or_insert(0);
        if n > *e {
            *e = n;
        }
    }
    pub fn get(&self, k: &str) -> u64 {
        self.counters.get(k).copied().unwrap_or(0)
    }
    pub fn see(&mut self, set: &str, item: &str) {
        self.distinct.entry(set.to_string()).or_default().insert(hash_str(item));
    }
    pub fn n_distinct(&self, set: &str) -> u64 {
        self.distinct.get(set).map(|s| s.len() as u64).unwrap_or(0)
    }
    pub fn sample(&mut self, v: Value) {
        if self.samples.len() < 6 {
            self.samples.push(v);
        }
    }
    pub fn violation(&mut self, v: Violation) {
        // keep at most 3 witnesses per class per shard
        let n = self.violations.iter().filter(|x| x.class == v.class).count();
        self.add(&format!("violations_by_class::{}", v.class), 1);
        if n < 1 {
            self.violations.push(v);
        }
    }
    pub fn merge(&mut self, o: Stats) {
        for (k, v) in o.counters {
            if k.starts_with("max::") {
                self.max(&k, v);
            } else {
                self.add(&k, v);
            }
        }
        for (k, s) in o.distinct {
            self.distinct.entry(k).or_default().extend(s);
        }
        for s in o.samples {
            self.sample(s);
        }
        for v in o.violations {
            let n = self.violations.iter().filter(|x| x.class == v.class).count();
            if n < 1 {
                self.violations.push(v);
            }
        }
        self.notes.extend(o.notes);
    }
}

pub struct RunCtl {
    pub deadline: Instant,
    pub cap_hit: AtomicBool,
}

impl RunCtl {
    pub fn new(secs: u64) -> Self {
        RunCtl {
            deadline: Instant::now() + Duration::from_secs(secs),
            cap_hit: AtomicBool::new(false),
        }
    }
    pub fn expired(&self) -> bool {
        if Instant::now() >= self.deadline {
            self.cap_hit.store(true, Ordering::Relaxed);
            true
        } else {
            false
        }
    }
}

pub fn n_threads() -> usize {
    std::env::var("VERIF_THREADS")
        .ok()
        .and_then(|s| s.parse().ok())
        .unwrap_or_else(|| std::thread::available_parallelism().map(|n| n.get()).unwrap_or(8))
}

/// Run `f(i, &mut stats)` for every i in 0..n on a pool of threads (each case on exactly one
/// thread; `Story` is !Send so each thread builds its own). Returns merged stats and the number
/// of cases completed (== n unless the wall cap fired).
pub fn par_cases<F>(n: usize, ctl: &RunCtl, f: F) -> (Stats, usize)
where
    F: Fn(usize, &mut Stats) + Sync,
{
    let next = AtomicUsize::new(0);
    let done = AtomicUsize::new(0);
    let total = Mutex::new(Stats::default());
    let threads = n_threads().min(n.max(1));
    std::thread::scope(|s| {
        for _ in 0..threads {
            s.spawn(|| {
                crate::inst::install_quiet_panic_hook();
                let mut local = Stats::default();
                loop {
                    if ctl.expired() {
                        break;
                    }
                    let i = next.fetch_add(1, Ordering::Relaxed);
                    if i >= n {
                        break;
                    }
                    f(i, &mut local);
                    done.fetch_add(1, Ordering::Relaxed);
                }
                total.lock().unwrap().merge(local);
            });
        }
    });
    (total.into_inner().unwrap(), done.load(Ordering::Relaxed))
}

// ---------------------------------------------------------------------------------------------

#[derive(Clone, Debug)]
pub struct KnownFinding {
    pub property: String,
    pub status: String,
    pub class: String,
    pub what: String,
}

pub fn load_known_findings() -> Vec<KnownFinding> {
    let p = PathBuf::from(VERIF_DIR).join("known_findings.json");
    let Ok(text) = std::fs::read_to_string(&p) else {
        return vec![];
    };
    let v: Value = serde_json::from_str(&text).expect("known_findings.json is not JSON");
    let mut out = vec![];
    for e in v.get("findings").and_then(|f| f.as_array()).cloned().unwrap_or_default() {
        out.push(KnownFinding {
            property: e["property"].as_str().unwrap_or("").to_string(),
            status: e["status"].as_str().unwrap_or("").to_string(),
            class: e["class"].as_str().unwrap_or("").to_string(),
            what: e["what"].as_str().unwrap_or("").to_string(),
        });
    }
    out
}

/// exact match, or prefix match when the listed class ends in '*'
fn class_matches(listed: &str, actual: &str) -> bool {
    // glob with '*' = any (possibly empty) run of characters
    let parts: Vec<&str> = listed.split('*').collect();
    if parts.len() == 1 {
        return listed == actual;
    }
    let mut pos = 0usize;
    for (i, p) in parts.iter().enumerate() {
        if i == 0 {
            if !actual.starts_with(p) {
                return false;
            }
            pos = p.len();
        } else if i == parts.len() - 1 {
            return actual.len() >= pos + p.len() && actual[pos..].ends_with(p);
        } else {
            match actual[pos..].find(p) {
                Some(k) => pos += k + p.len(),
                None => return false,
            }
        }
    }
    true
}

pub struct Outcome {
    pub exit_code: i32,
    pub unlisted: usize,
    pub known: usize,
}

/// Print KNOWN-FINDING / VIOLATION lines, write artefacts, return the exit code.
pub fn report_violations(property: &str, violations: &[Violation]) -> Outcome {
    let known = load_known_findings();
    let dir = PathBuf::from(VERIF_DIR).join("out").join("violations").join(property);
    let _ = std::fs::remove_dir_all(&dir);
    std::fs::create_dir_all(&dir).ok();
    let mut unlisted = 0;
    let mut n_known = 0;
    let mut printed_known: HashSet<String> = HashSet::new();
    for (i, v) in violations.iter().enumerate() {
        let mut art = v.artefact.clone();
        if let Some(m) = art.as_object_mut() {
            m.insert("property".into(), json!(v.property));
            m.insert("class".into(), json!(v.class));
            m.insert("what".into(), json!(v.what));
        }
        let path = dir.join(format!("{i}.json"));
        std::fs::write(&path, serde_json::to_string_pretty(&art).unwrap()).ok();
        let listed = known
            .iter()
            .find(|k| k.property == property && k.status == "open" && class_matches(&k.class, &v.class));
        match listed {
            Some(k) => {
                n_known += 1;
                if printed_known.insert(k.class.clone()) {
                    println!("KNOWN-FINDING: property={} {} :: {}", property, k.class, k.what);
                }
            }
            None => {
                unlisted += 1;
                println!("VIOLATION property={} replay={}", property, path.display());
                println!("  class: {}", v.class);
                println!("  what:  {}", v.what);
            }
        }
    }
    Outcome {
        exit_code: if unlisted > 0 { 1 } else { 0 },
        unlisted,
        known: n_known,
    }
}

pub struct Evidence {
    pub property: String,
    pub tier: String,
    pub level: &'static str,
    pub coverage: Map<String, Value>,
    pub assumptions: Vec<String>,
    pub started: Instant,
}

impl Evidence {
    pub fn new(property: &str, tier: &str, level: &'static str) -> Self {
        Evidence {
            property: property.to_string(),
            tier: tier.to_string(),
            level,
            coverage: Map::new(),
            assumptions: vec![],
            started: Instant::now(),
        }
    }
    pub fn set(&mut self, k: &str, v: Value) {
        self.coverage.insert(k.to_string(), v);
    }
    pub fn write(&self, violations: usize, known: usize) {
        let seed: i64 = std::env::var("VERIF_SEED").ok().and_then(|s| s.parse().ok()).unwrap_or(0);
        let mut cov = self.coverage.clone();
        cov.insert("known_findings_matched".into(), json!(known));
        let v = json!({
            "property_id": self.property,
            "tier": self.tier,
            "seed": seed,
            "level": self.level,
            "coverage": Value::Object(cov),
            "assumptions": self.assumptions,
            "wall_s": self.started.elapsed().as_secs_f64(),
            "violations": violations,
        });
        let dir = PathBuf::from(VERIF_DIR).join("evidence");
        std::fs::create_dir_all(&dir).ok();
        std::fs::write(
            dir.join(format!("{}.json", self.property)),
            serde_json::to_string_pretty(&v).unwrap() + "\n",
        )
        .expect("cannot write evidence");
    }
}

/// Stats -> the counters part of the evidence (everything measured by this run).
pub fn stats_to_json(s: &Stats) -> Value {
    let mut m = Map::new();
    for (k, v) in &s.counters {
        if k.starts_with("violations_by_class::") {
            continue;
        }
        m.insert(k.clone(), json!(v));
    }
    for (k, v) in &s.distinct {
        m.insert(format!("distinct::{k}"), json!(v.len()));
    }
    let mut by_class = Map::new();
    for (k, v) in &s.counters {
        if let Some(c) = k.strip_prefix("violations_by_class::") {
            by_class.insert(c.to_string(), json!(v));
        }
    }
    if !by_class.is_empty() {
        m.insert("violations_by_class".into(), Value::Object(by_class));
    }
    Value::Object(m)
}
