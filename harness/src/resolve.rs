//! Independent static resolver over the compiled story document (serde_json::Value only; no
//! repository code): every divert, tunnel, function call, thread target, choice target, read-count
//! reference and divert-target literal must resolve *exactly* to existing content of the right
//! kind.
//!
//! Document shape: a container is an array whose last element is null or an object holding the
//! named-only sub-containers plus "#f" (count flags) and "#n" (own name); content = all elements
//! but the last. A sub-container in content may carry a name ("#n"), which also makes it
//! addressable by that name from its parent. Paths: dot-separated components, numbers are content
//! indices, "^" is the parent, a leading "." makes the path relative to the container that holds
//! the referring object.
use serde_json::Value;

#[derive(Debug, Clone)]
pub struct Dangling {
    pub kind: String,
    pub path: String,
    pub at: String,
    pub why: String,
}

fn content(c: &Value) -> &[Value] {
    match c.as_array() {
        Some(a) if !a.is_empty() => &a[..a.len() - 1],
        _ => &[],
    }
}

fn trailer(c: &Value) -> Option<&serde_json::Map<String, Value>> {
    c.as_array()?.last()?.as_object()
}

fn named_child<'a>(c: &'a Value, name: &str) -> Option<&'a Value> {
    if let Some(t) = trailer(c)
        && !name.starts_with('#')
        && let Some(v) = t.get(name)
        && v.is_array()
    {
        return Some(v);
    }
    content(c).iter().find(|e| e.is_array() && trailer(e).and_then(|t| t.get("#n")).and_then(|n| n.as_str()) == Some(name))
}

/// Resolve `path` starting from the chain of containers `chain` (root first; last = the container
/// holding the referring object). Returns Ok(is_container) or Err(reason).
fn resolve<'a>(root: &'a Value, chain: &[&'a Value], path: &str) -> Result<bool, String> {
    if path.is_empty() {
        return Err("empty path".into());
    }
    let (relative, body) = match path.strip_prefix('.') {
        Some(b) => (true, b),
        None => (false, path),
    };
    let comps: Vec<&str> = body.split('.').collect();
    let mut stack: Vec<&Value> = if relative { chain.to_vec() } else { vec![root] };
    let mut first = relative;
    let mut cur_is_container = true;
    let n = comps.len();
    for (i, comp) in comps.iter().enumerate() {
        if !cur_is_container {
            return Err(format!("component {comp:?} follows a non-container"));
        }
        let cur = *stack.last().ok_or("walked above the root")?;
        if *comp == "^" {
            if first {
                // ".^" = the container that holds the referring object: already on top
                first = false;
                continue;
            }
            stack.pop();
            if stack.is_empty() {
                return Err("walked above the root".into());
            }
            continue;
        }
        first = false;
        if comp.is_empty() {
            return Err("empty component".into());
        }
        if let Ok(idx) = comp.parse::<usize>() {
            let c = content(cur);
            match c.get(idx) {
                Some(e) => {
                    if e.is_array() {
                        stack.push(e);
                    } else {
                        cur_is_container = false;
                        if i + 1 != n {
                            return Err(format!("index {idx} is not a container but the path goes on"));
                        }
                    }
                }
                None => {
                    return Err(format!("index {idx} out of range (content length {})", c.len()));
                }
            }
        } else {
            match named_child(cur, comp) {
                Some(e) => stack.push(e),
                None => return Err(format!("no content named {comp:?}")),
            }
        }
    }
    Ok(cur_is_container)
}

fn walk<'a>(root: &'a Value, c: &'a Value, chain: &mut Vec<&'a Value>, at: &str, out: &mut Vec<Dangling>, refs: &mut usize) {
    chain.push(c);
    let items = content(c);
    for (i, e) in items.iter().enumerate() {
        let here = if at.is_empty() { i.to_string() } else { format!("{at}.{i}") };
        if e.is_array() {
            let name = trailer(e).and_then(|t| t.get("#n")).and_then(|n| n.as_str());
            let sub = match name {
                Some(n) if at.is_empty() => n.to_string(),
                Some(n) => format!("{at}.{n}"),
                None => here.clone(),
            };
            walk(root, e, chain, &sub, out, refs);
            continue;
        }
        let Some(o) = e.as_object() else { continue };
        let is_var = o.get("var").and_then(|v| v.as_bool()).unwrap_or(false);
        for (key, need_container) in [("->", false), ("f()", true), ("->t->", false), ("*", true), ("CNT?", true), ("^->", false)] {
            let Some(p) = o.get(key).and_then(|p| p.as_str()) else { continue };
            if is_var && key != "*" && key != "CNT?" && key != "^->" {
                continue; // target held in a variable: not statically checkable
            }
            *refs += 1;
            // a divert right after the "thread" command is a thread start
            // ... and one between "str" and "/str" of its container sits inside string / choice-text
            // evaluation
            let in_str = {
                let mut depth = 0i32;
                for it in &items[..i] {
                    match it.as_str() {
                        Some("str") => depth += 1,
                        Some("/str") => depth -= 1,
                        _ => {}
                    }
                }
                depth > 0
            };
            let kind_s: String = if key == "->" && i > 0 && items[i - 1].as_str() == Some("thread") {
                "thread->".into()
            } else if in_str {
                format!("in-string:{key}")
            } else {
                key.to_string()
            };
            let kind = kind_s.as_str();
            // a divert-target VALUE is looked up from the root whatever it looks like (the
            // runtime hands its path to content_at_path of the main container, which ignores
            // the relative flag), so a leading dot changes nothing
            let p_eff = if key == "^->" { p.strip_prefix('.').unwrap_or(p) } else { p };
            match resolve(root, chain, p_eff) {
                Ok(is_c) => {
                    if need_container && !is_c {
                        out.push(Dangling { kind: kind.into(), path: p.into(), at: here.clone(), why: "resolves to non-container content".into() });
                    }
                }
                Err(why) => out.push(Dangling { kind: kind.into(), path: p.into(), at: here.clone(), why }),
            }
        }
    }
    if let Some(t) = trailer(c) {
        for (k, v) in t {
            if k.starts_with('#') || !v.is_array() {
                continue;
            }
            let sub = if at.is_empty() { k.clone() } else { format!("{at}.{k}") };
            walk(root, v, chain, &sub, out, refs);
        }
    }
    chain.pop();
}

/// returns (number of references checked, dangling references)
pub fn check_story(doc: &Value) -> (usize, Vec<Dangling>) {
    let mut out = vec![];
    let mut refs = 0;
    if let Some(root) = doc.get("root") {
        let mut chain = vec![];
        walk(root, root, &mut chain, "", &mut out, &mut refs);
    } else {
        out.push(Dangling { kind: "root".into(), path: String::new(), at: String::new(), why: "no root".into() });
    }
    (refs, out)
}
