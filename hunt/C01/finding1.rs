// FINDING 1: the lines of a choice's body are only recognised when they are indented deeper
// than the choice. Ink is not indentation sensitive: everything after a choice line up to the
// next choice/gather of the weave is that choice's content.
use bladeink::story::Story;
use bladeink_compiler::Compiler;

/// Compile `ink`, play it taking `picks` in order, and return a transcript:
/// every line of text as delivered, `? a | b` for each offered choice set, and
/// `ERR: ..` if the compiler or the runtime reports an error.
fn play(ink: &str, picks: &[usize]) -> String {
    let json = match Compiler::new().compile(ink) {
        Ok(j) => j,
        Err(e) => return format!("COMPILE ERR: {e}\n"),
    };
    let mut story = Story::new(&json).expect("compiled story loads");
    let mut out = String::new();
    let mut picks = picks.iter();
    loop {
        while story.can_continue() {
            match story.cont() {
                Ok(line) => out.push_str(&line),
                Err(e) => {
                    out.push_str(&format!("ERR: {e}\n"));
                    return out;
                }
            }
        }
        let choices = story.get_current_choices();
        if choices.is_empty() {
            return out;
        }
        let texts: Vec<String> = choices.iter().map(|c| c.text.clone()).collect();
        out.push_str(&format!("? {}\n", texts.join(" | ")));
        match picks.next() {
            Some(&i) if i < choices.len() => story.choose_choice_index(i).unwrap(),
            _ => return out,
        }
    }
}

#[test]
fn unindented_choice_body_belongs_to_the_choice() {
    let ink = "\
-> k
== k
Start
* A
text under A
* B
text under B
- gather
-> END
";
    // Ink: both choices are offered together; picking A prints A, its body, then the gather.
    assert_eq!(
        play(ink, &[0]),
        "Start\n? A | B\nA\ntext under A\ngather\n"
    );
}

#[test]
fn unindented_choice_body_second_choice() {
    let ink = "\
-> k
== k
Start
* A
text under A
* B
text under B
- gather
-> END
";
    assert_eq!(
        play(ink, &[1]),
        "Start\n? A | B\nB\ntext under B\ngather\n"
    );
}

#[test]
fn weave_written_at_one_indentation_level() {
    let ink = "\
-> k
== k
    * A
    body A
    * B
    body B
    - g
    -> END
";
    assert_eq!(play(ink, &[1]), "? A | B\nB\nbody B\ng\n");
}
