// FINDING 12: `//` comments are removed "respecting string literals", toggling on every `\"`.
// Ink removes comments before parsing, with no notion of quotes in story text. A line of
// dialogue with an opening quote only (speech continuing in the next paragraph) therefore
// keeps its comment as story text.
use bladeink::story::Story;
use bladeink_compiler::Compiler;

/// Compile `ink`, play it taking `picks` in order, and return a transcript:
/// every line of text as delivered, `? a | b` for each offered choice set, and
/// `ERR: ..` if the compiler or the runtime reports an error.
fn play(ink: &str, picks: &[usize]) -> String {
    let json = match Compiler::new().compile(ink) {
        Ok(j) => j,
        Err(e) => return format!("COMPILE ERR: {e}\n"),
    };
    let mut story = Story::new(&json).expect("compiled story loads");
    let mut out = String::new();
    let mut picks = picks.iter();
    loop {
        while story.can_continue() {
            match story.cont() {
                Ok(line) => out.push_str(&line),
                Err(e) => {
                    out.push_str(&format!("ERR: {e}\n"));
                    return out;
                }
            }
        }
        let choices = story.get_current_choices();
        if choices.is_empty() {
            return out;
        }
        let texts: Vec<String> = choices.iter().map(|c| c.text.clone()).collect();
        out.push_str(&format!("? {}\n", texts.join(" | ")));
        match picks.next() {
            Some(&i) if i < choices.len() => story.choose_choice_index(i).unwrap(),
            _ => return out,
        }
    }
}

#[test]
fn comment_after_an_unbalanced_quote() {
    let ink = "\
She whispered: \"Run! // she is scared here
And we ran.\"
";
    assert_eq!(play(ink, &[]), "She whispered: \"Run!\nAnd we ran.\"\n");
}
