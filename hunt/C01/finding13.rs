// FINDING 13: TURNS_SINCE(-> label) of a labelled choice, in a stitch whose choices are
// followed by a bare `-` gather line: the choice's container is emitted without the
// turn-counting flag, so the story stops with "TURNS_SINCE() for target (c-0) unknown".
// The same weave directly in a knot, or with the gather's text on the `-` line, works.
use bladeink::story::Story;
use bladeink_compiler::Compiler;

/// Compile `ink`, play it taking `picks` in order, and return a transcript:
/// every line of text as delivered, `? a | b` for each offered choice set, and
/// `ERR: ..` if the compiler or the runtime reports an error.
fn play(ink: &str, picks: &[usize]) -> String {
    let json = match Compiler::new().compile(ink) {
        Ok(j) => j,
        Err(e) => return format!("COMPILE ERR: {e}\n"),
    };
    let mut story = Story::new(&json).expect("compiled story loads");
    let mut out = String::new();
    let mut picks = picks.iter();
    loop {
        while story.can_continue() {
            match story.cont() {
                Ok(line) => out.push_str(&line),
                Err(e) => {
                    out.push_str(&format!("ERR: {e}\n"));
                    return out;
                }
            }
        }
        let choices = story.get_current_choices();
        if choices.is_empty() {
            return out;
        }
        let texts: Vec<String> = choices.iter().map(|c| c.text.clone()).collect();
        out.push_str(&format!("? {}\n", texts.join(" | ")));
        match picks.next() {
            Some(&i) if i < choices.len() => story.choose_choice_index(i).unwrap(),
            _ => return out,
        }
    }
}

#[test]
fn turns_since_a_labelled_choice_in_a_stitch() {
    let ink = "\
-> k.s
== k
= s
* (la) A
-
after {TURNS_SINCE(-> la)}
-> END
";
    assert_eq!(play(ink, &[0]), "? A\nA\nafter 0\n");
}

#[test]
fn control_same_weave_with_text_on_the_gather_line() {
    // passes on the unchanged tree
    let ink = "\
-> k.s
== k
= s
* (la) A
- after {TURNS_SINCE(-> la)}
-> END
";
    assert_eq!(play(ink, &[0]), "? A\nA\nafter 0\n");
}

#[test]
fn turns_since_a_labelled_choice_after_a_labelled_gather_in_a_knot() {
    let ink = "\
-> k
== k
- (top) top
* (la) A
* (lb) B
-
after {la} {lb} {TURNS_SINCE(-> la)}
-> END
";
    assert_eq!(play(ink, &[0]), "top\n? A | B\nA\nafter 1 0 0\n");
}
