// FINDING 2: a conditional fallback choice (`* {cond} ->`) whose body follows on the next
// lines: the first body line is taken as the choice's text, so the fallback becomes a
// visible choice.
use bladeink::story::Story;
use bladeink_compiler::Compiler;

/// Compile `ink`, play it taking `picks` in order, and return a transcript:
/// every line of text as delivered, `? a | b` for each offered choice set, and
/// `ERR: ..` if the compiler or the runtime reports an error.
fn play(ink: &str, picks: &[usize]) -> String {
    let json = match Compiler::new().compile(ink) {
        Ok(j) => j,
        Err(e) => return format!("COMPILE ERR: {e}\n"),
    };
    let mut story = Story::new(&json).expect("compiled story loads");
    let mut out = String::new();
    let mut picks = picks.iter();
    loop {
        while story.can_continue() {
            match story.cont() {
                Ok(line) => out.push_str(&line),
                Err(e) => {
                    out.push_str(&format!("ERR: {e}\n"));
                    return out;
                }
            }
        }
        let choices = story.get_current_choices();
        if choices.is_empty() {
            return out;
        }
        let texts: Vec<String> = choices.iter().map(|c| c.text.clone()).collect();
        out.push_str(&format!("? {}\n", texts.join(" | ")));
        match picks.next() {
            Some(&i) if i < choices.len() => story.choose_choice_index(i).unwrap(),
            _ => return out,
        }
    }
}

#[test]
fn conditional_fallback_choice_keeps_its_body() {
    let ink = "\
VAR x = 2
-> k
== k
text
* {x > 1} ->
  fallback body
  -> END
";
    // Ink: no visible choice, the fallback is followed at once.
    assert_eq!(play(ink, &[]), "text\nfallback body\n");
}
