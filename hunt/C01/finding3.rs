// FINDING 3: `start[choice-only]end` choice text is put together by string heuristics instead
// of Ink's rule (offered = start + choice-only, printed = start + end, each part verbatim).
// Reference evidence: conformance-tests/inkfiles/choices/mixed-choice.ink.json keeps
// "^Hello " / "^back!" / "^ right back to you!" verbatim.
use bladeink::story::Story;
use bladeink_compiler::Compiler;

/// Compile `ink`, play it taking `picks` in order, and return a transcript:
/// every line of text as delivered, `? a | b` for each offered choice set, and
/// `ERR: ..` if the compiler or the runtime reports an error.
fn play(ink: &str, picks: &[usize]) -> String {
    let json = match Compiler::new().compile(ink) {
        Ok(j) => j,
        Err(e) => return format!("COMPILE ERR: {e}\n"),
    };
    let mut story = Story::new(&json).expect("compiled story loads");
    let mut out = String::new();
    let mut picks = picks.iter();
    loop {
        while story.can_continue() {
            match story.cont() {
                Ok(line) => out.push_str(&line),
                Err(e) => {
                    out.push_str(&format!("ERR: {e}\n"));
                    return out;
                }
            }
        }
        let choices = story.get_current_choices();
        if choices.is_empty() {
            return out;
        }
        let texts: Vec<String> = choices.iter().map(|c| c.text.clone()).collect();
        out.push_str(&format!("? {}\n", texts.join(" | ")));
        match picks.next() {
            Some(&i) if i < choices.len() => story.choose_choice_index(i).unwrap(),
            _ => return out,
        }
    }
}

fn one(choice_line: &str) -> String {
    play(&format!("-> k\n== k\n{choice_line}\n  -> END\n"), &[0])
}

#[test]
fn bracket_in_the_middle_of_a_word() {
    assert_eq!(one("* Hel[lo]p me"), "? Hello\nHelp me\n");
}

#[test]
fn empty_bracket_between_two_words_without_space() {
    assert_eq!(one("* X[]Y"), "? X\nXY\n");
}

#[test]
fn leading_space_inside_bracket_is_kept() {
    assert_eq!(
        one("* I went[ to the shop] home"),
        "? I went to the shop\nI went home\n"
    );
}

#[test]
fn closing_quote_after_bracket() {
    // start `"What?`, choice-only `!"`, end `" I said.`
    assert_eq!(
        one("* \"What?[!\"]\" I said."),
        "? \"What?!\"\n\"What?\" I said.\n"
    );
}

#[test]
fn quote_is_not_copied_into_the_offered_text() {
    assert_eq!(one("* 'Hi[!]' she said"), "? 'Hi!\n'Hi' she said\n");
}
