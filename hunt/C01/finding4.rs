// FINDING 4: in the text of a choice, `{cond: a|b}` is compiled as a stopping sequence
// (elements "cond: a" and "b") for the offered text, while the printed text after choosing
// evaluates it as a conditional. Backslash escapes are also left in the offered text.
use bladeink::story::Story;
use bladeink_compiler::Compiler;

/// Compile `ink`, play it taking `picks` in order, and return a transcript:
/// every line of text as delivered, `? a | b` for each offered choice set, and
/// `ERR: ..` if the compiler or the runtime reports an error.
fn play(ink: &str, picks: &[usize]) -> String {
    let json = match Compiler::new().compile(ink) {
        Ok(j) => j,
        Err(e) => return format!("COMPILE ERR: {e}\n"),
    };
    let mut story = Story::new(&json).expect("compiled story loads");
    let mut out = String::new();
    let mut picks = picks.iter();
    loop {
        while story.can_continue() {
            match story.cont() {
                Ok(line) => out.push_str(&line),
                Err(e) => {
                    out.push_str(&format!("ERR: {e}\n"));
                    return out;
                }
            }
        }
        let choices = story.get_current_choices();
        if choices.is_empty() {
            return out;
        }
        let texts: Vec<String> = choices.iter().map(|c| c.text.clone()).collect();
        out.push_str(&format!("? {}\n", texts.join(" | ")));
        match picks.next() {
            Some(&i) if i < choices.len() => story.choose_choice_index(i).unwrap(),
            _ => return out,
        }
    }
}

#[test]
fn inline_conditional_in_choice_text() {
    let ink = "\
VAR x = 2
-> k
== k
* Inline {x > 1:yes|no} choice
- done
-> END
";
    assert_eq!(
        play(ink, &[0]),
        "? Inline yes choice\nInline yes choice\ndone\n"
    );
}

#[test]
fn inline_conditional_in_bracket_text() {
    let ink = "\
VAR x = 2
-> k
== k
* [opt {x > 1:yes|no} here]
- done
-> END
";
    assert_eq!(play(ink, &[0]), "? opt yes here\ndone\n");
}

#[test]
fn escapes_in_choice_text() {
    let ink = "\
-> k
== k
* \\{escaped\\} start
- done
-> END
";
    assert_eq!(play(ink, &[0]), "? {escaped} start\n{escaped} start\ndone\n");
}
