// FINDING 6: a story whose top-level weave opens with a labelled gather and ends in a plain
// gather (no `-> END`): after the last gather the flow jumps back into the middle gather,
// prints it a second time and then runs out of content.
use bladeink::story::Story;
use bladeink_compiler::Compiler;

/// Compile `ink`, play it taking `picks` in order, and return a transcript:
/// every line of text as delivered, `? a | b` for each offered choice set, and
/// `ERR: ..` if the compiler or the runtime reports an error.
fn play(ink: &str, picks: &[usize]) -> String {
    let json = match Compiler::new().compile(ink) {
        Ok(j) => j,
        Err(e) => return format!("COMPILE ERR: {e}\n"),
    };
    let mut story = Story::new(&json).expect("compiled story loads");
    let mut out = String::new();
    let mut picks = picks.iter();
    loop {
        while story.can_continue() {
            match story.cont() {
                Ok(line) => out.push_str(&line),
                Err(e) => {
                    out.push_str(&format!("ERR: {e}\n"));
                    return out;
                }
            }
        }
        let choices = story.get_current_choices();
        if choices.is_empty() {
            return out;
        }
        let texts: Vec<String> = choices.iter().map(|c| c.text.clone()).collect();
        out.push_str(&format!("? {}\n", texts.join(" | ")));
        match picks.next() {
            Some(&i) if i < choices.len() => story.choose_choice_index(i).unwrap(),
            _ => return out,
        }
    }
}

#[test]
fn top_level_weave_with_labelled_first_gather_ends_after_last_gather() {
    let ink = "\
- (top)
* A
- mid
* B
- end
";
    assert_eq!(play(ink, &[0, 0]), "? A\nA\nmid\n? B\nB\nend\n");
}

#[test]
fn same_weave_without_the_label_is_fine() {
    // control: passes on the unchanged tree
    let ink = "\
* A
- mid
* B
- end
";
    assert_eq!(play(ink, &[0, 0]), "? A\nA\nmid\n? B\nB\nend\n");
}
