// FINDING 7: in the top-level weave, a choice block followed by a gather labelled `loop`
// does not compile ("divert target '0.loop' not found"). With any other label name the same
// program compiles and plays; inside a knot it also works.
use bladeink::story::Story;
use bladeink_compiler::Compiler;

/// Compile `ink`, play it taking `picks` in order, and return a transcript:
/// every line of text as delivered, `? a | b` for each offered choice set, and
/// `ERR: ..` if the compiler or the runtime reports an error.
fn play(ink: &str, picks: &[usize]) -> String {
    let json = match Compiler::new().compile(ink) {
        Ok(j) => j,
        Err(e) => return format!("COMPILE ERR: {e}\n"),
    };
    let mut story = Story::new(&json).expect("compiled story loads");
    let mut out = String::new();
    let mut picks = picks.iter();
    loop {
        while story.can_continue() {
            match story.cont() {
                Ok(line) => out.push_str(&line),
                Err(e) => {
                    out.push_str(&format!("ERR: {e}\n"));
                    return out;
                }
            }
        }
        let choices = story.get_current_choices();
        if choices.is_empty() {
            return out;
        }
        let texts: Vec<String> = choices.iter().map(|c| c.text.clone()).collect();
        out.push_str(&format!("? {}\n", texts.join(" | ")));
        match picks.next() {
            Some(&i) if i < choices.len() => story.choose_choice_index(i).unwrap(),
            _ => return out,
        }
    }
}

fn program(label: &str) -> String {
    format!(
        "\
* A
- ({label})
text
* C
+ D
  -> {label}
- end
-> END
"
    )
}

#[test]
fn label_named_loop_at_top_level() {
    let expected = "? A\nA\ntext\n? C | D\nD\ntext\n? C | D\nC\nend\n";
    // control: any other name works
    assert_eq!(play(&program("other"), &[0, 1, 0]), expected);
    assert_eq!(play(&program("loop"), &[0, 1, 0]), expected);
}
