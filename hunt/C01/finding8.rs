// FINDING 8: an argument for a `ref` parameter is passed by reference only in function
// calls. In a divert / tunnel / thread with arguments (`-> q(x)`, `-> t(x) ->`, `<- th(x)`)
// the value is passed, so the assignment inside does not reach the caller's variable.
use bladeink::story::Story;
use bladeink_compiler::Compiler;

/// Compile `ink`, play it taking `picks` in order, and return a transcript:
/// every line of text as delivered, `? a | b` for each offered choice set, and
/// `ERR: ..` if the compiler or the runtime reports an error.
fn play(ink: &str, picks: &[usize]) -> String {
    let json = match Compiler::new().compile(ink) {
        Ok(j) => j,
        Err(e) => return format!("COMPILE ERR: {e}\n"),
    };
    let mut story = Story::new(&json).expect("compiled story loads");
    let mut out = String::new();
    let mut picks = picks.iter();
    loop {
        while story.can_continue() {
            match story.cont() {
                Ok(line) => out.push_str(&line),
                Err(e) => {
                    out.push_str(&format!("ERR: {e}\n"));
                    return out;
                }
            }
        }
        let choices = story.get_current_choices();
        if choices.is_empty() {
            return out;
        }
        let texts: Vec<String> = choices.iter().map(|c| c.text.clone()).collect();
        out.push_str(&format!("? {}\n", texts.join(" | ")));
        match picks.next() {
            Some(&i) if i < choices.len() => story.choose_choice_index(i).unwrap(),
            _ => return out,
        }
    }
}

#[test]
fn ref_parameter_of_a_knot_reached_by_divert() {
    let ink = "\
VAR x = 3
-> q(x)
== q(ref v)
~ v = v + 10
{v} {x}
-> END
";
    assert_eq!(play(ink, &[]), "13 13\n");
}

#[test]
fn ref_parameter_of_a_tunnel() {
    let ink = "\
VAR x = 3
-> tun(x) ->
{x}
-> END
== tun(ref w)
~ w = w * 2
->->
";
    assert_eq!(play(ink, &[]), "6\n");
}

#[test]
fn ref_parameter_of_a_function_control() {
    // control: passes on the unchanged tree
    let ink = "\
VAR x = 3
~ alter(x)
{x}
== function alter(ref v)
~ v = v + 10
";
    assert_eq!(play(ink, &[]), "13\n");
}
