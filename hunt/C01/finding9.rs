// FINDING 9: the start text of a choice (the part before `[`) is ONE piece of content in
// Ink, run once to build the offered text and once more when the choice is taken (the `s`
// container + `$r` return address in every reference-compiled choice, e.g.
// conformance-tests/inkfiles/choices/mixed-choice.ink.json). A sequence in it therefore
// advances on both runs. The compiler emits two independent copies instead, so each copy
// keeps its own count.
use bladeink::story::Story;
use bladeink_compiler::Compiler;

/// Compile `ink`, play it taking `picks` in order, and return a transcript:
/// every line of text as delivered, `? a | b` for each offered choice set, and
/// `ERR: ..` if the compiler or the runtime reports an error.
fn play(ink: &str, picks: &[usize]) -> String {
    let json = match Compiler::new().compile(ink) {
        Ok(j) => j,
        Err(e) => return format!("COMPILE ERR: {e}\n"),
    };
    let mut story = Story::new(&json).expect("compiled story loads");
    let mut out = String::new();
    let mut picks = picks.iter();
    loop {
        while story.can_continue() {
            match story.cont() {
                Ok(line) => out.push_str(&line),
                Err(e) => {
                    out.push_str(&format!("ERR: {e}\n"));
                    return out;
                }
            }
        }
        let choices = story.get_current_choices();
        if choices.is_empty() {
            return out;
        }
        let texts: Vec<String> = choices.iter().map(|c| c.text.clone()).collect();
        out.push_str(&format!("? {}\n", texts.join(" | ")));
        match picks.next() {
            Some(&i) if i < choices.len() => story.choose_choice_index(i).unwrap(),
            _ => return out,
        }
    }
}

#[test]
fn sequence_in_choice_start_text_is_shared() {
    let ink = "\
-> k
== k
+ Take {&a|b|c} pick
  -> k
";
    // reference: offered a, printed b, offered c, printed a, offered b ...
    assert_eq!(
        play(ink, &[0, 0]),
        "? Take a pick\nTake b pick\n? Take c pick\nTake a pick\n? Take b pick\n"
    );
}
