// C02 finding 1: an empty list loses its origin list(s) in a save, so LIST_ALL / LIST_INVERT
// (and every later `+= item`-free operation that relies on the origin) change after load.
use bladeink::story::Story;
use bladeink_compiler::Compiler;

const INK: &str = r#"
LIST L = a, b, c
VAR l = (a)
~ l -= a
first
second {LIST_ALL(l)} / {LIST_INVERT(l)}
-> END
"#;

#[test]
fn empty_list_keeps_its_origins_across_save_and_load() {
    let json = Compiler::new().compile(INK).unwrap();

    let mut original = Story::new(&json).unwrap();
    assert_eq!("first\n", original.cont().unwrap());

    let saved = original.save_state().unwrap();
    let mut restored = Story::new(&json).unwrap();
    restored.load_state(&saved).unwrap();

    let expected = original.cont().unwrap();
    assert_eq!("second a, b, c / a, b, c\n", expected);
    // fails: the restored story prints "second /\n"
    assert_eq!(expected, restored.cont().unwrap());
}

// The same loss for a temporary variable inside a knot (saved in the callstack, not in the globals).
#[test]
fn empty_temp_list_keeps_its_origins_across_save_and_load() {
    let ink = r#"
LIST L = a, b, c
-> k
=== k
~ temp t = (a)
~ t -= a
one
two {LIST_ALL(t)}
-> END
"#;
    let json = Compiler::new().compile(ink).unwrap();
    let mut original = Story::new(&json).unwrap();
    assert_eq!("one\n", original.cont().unwrap());
    let saved = original.save_state().unwrap();
    let mut restored = Story::new(&json).unwrap();
    restored.load_state(&saved).unwrap();
    let expected = original.cont().unwrap();
    assert_eq!("two a, b, c\n", expected);
    assert_eq!(expected, restored.cont().unwrap());
}
