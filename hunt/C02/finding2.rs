// C02 finding 2: a float variable that has overflowed to infinity (or is NaN) is written as JSON
// `null`; the save that `save_state` returned with Ok can then not be loaded at all.
use bladeink::story::Story;
use bladeink_compiler::Compiler;

const INK: &str = r#"
VAR x = 100000000000000000000.0
~ x = x * x
first {x}
second {x}
-> END
"#;

#[test]
fn save_with_an_infinite_float_can_be_loaded() {
    let json = Compiler::new().compile(INK).unwrap();

    let mut original = Story::new(&json).unwrap();
    assert_eq!("first inf\n", original.cont().unwrap());

    let saved = original.save_state().unwrap();
    let mut restored = Story::new(&json).unwrap();
    // fails: Err(BadJson("Failed to convert token to runtime RTObject: null")), the save holds "x":null
    restored.load_state(&saved).unwrap();

    assert_eq!(original.cont().unwrap(), restored.cont().unwrap());
}
