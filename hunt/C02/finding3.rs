// C02 finding 3: a list value that is waiting on the evaluation stack when the game is saved comes
// back without its resolved origin definitions (they are only filled in by push_evaluation_stack),
// so the pending `list + n` gives an empty list in the restored story.
use bladeink::story::Story;
use bladeink_compiler::Compiler;

const INK: &str = r#"
LIST L = a, b, c
VAR l = (a)
~ temp y = l + f()
result {y}
-> END
=== function f()
line one
line two
~ return 1
"#;

#[test]
fn list_operand_on_the_evaluation_stack_survives_save_and_load() {
    let json = Compiler::new().compile(INK).unwrap();

    let mut original = Story::new(&json).unwrap();
    // the line ends inside f(), `l` is already on the evaluation stack
    assert_eq!("line one\n", original.cont().unwrap());

    let saved = original.save_state().unwrap();
    let mut restored = Story::new(&json).unwrap();
    restored.load_state(&saved).unwrap();

    assert_eq!("line two\n", original.cont().unwrap());
    assert_eq!("line two\n", restored.cont().unwrap());

    let expected = original.cont().unwrap();
    assert_eq!("result b\n", expected);
    // fails: the restored story prints "result\n"
    assert_eq!(expected, restored.cont().unwrap());
}
