// C02 finding 4: the callstack element field `function_start_in_output_stream` is not saved and
// comes back as 0 ("still trimming the start of the function's output") instead of -1, so a
// restored story that is inside a function drops the next newline that the original keeps.
use bladeink::story::Story;
use bladeink_compiler::Compiler;

const INK: &str = r#"
VAR e = ""
~ f()
after
-> END
=== function f()
line one
{e}
line three
"#;

#[test]
fn save_inside_a_function_keeps_the_line_structure() {
    let json = Compiler::new().compile(INK).unwrap();

    let mut original = Story::new(&json).unwrap();
    assert_eq!("line one\n", original.cont().unwrap());

    let saved = original.save_state().unwrap();
    let mut restored = Story::new(&json).unwrap();
    restored.load_state(&saved).unwrap();

    let mut a = Vec::new();
    while original.can_continue() {
        a.push(original.cont().unwrap());
    }
    let mut b = Vec::new();
    while restored.can_continue() {
        b.push(restored.cont().unwrap());
    }
    assert_eq!(vec!["\n", "line three\n", "after\n"], a);
    // fails: the restored story gives ["line three\n", "after\n"]
    assert_eq!(a, b);
}
