// C02 finding 5 (minor): a global is left out of the save when it compares `==` to its default;
// for floats -0.0 == 0.0, so a variable holding -0.0 comes back as 0.0 and prints differently.
use bladeink::{story::Story, value_type::ValueType};
use bladeink_compiler::Compiler;

const INK: &str = r#"
VAR x = 0.0
~ x = x * -1.0
first {x}
second {x}
-> END
"#;

#[test]
fn negative_zero_survives_save_and_load() {
    let json = Compiler::new().compile(INK).unwrap();

    let mut original = Story::new(&json).unwrap();
    assert_eq!("first -0\n", original.cont().unwrap());

    let saved = original.save_state().unwrap();
    let mut restored = Story::new(&json).unwrap();
    restored.load_state(&saved).unwrap();

    let sign = |s: &Story| match s.get_variable("x") {
        Some(ValueType::Float(f)) => f.is_sign_negative(),
        _ => panic!("x is not a float"),
    };
    assert!(sign(&original));
    let expected = original.cont().unwrap();
    assert_eq!("second -0\n", expected);
    // fails: the restored story prints "second 0\n"
    assert_eq!(expected, restored.cont().unwrap());
    assert!(sign(&restored));
}
