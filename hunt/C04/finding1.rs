//! C04 finding 1: passing a temp whose declaration was not executed (or any name that is
//! neither a global nor a temp of the calling frame, e.g. a knot name) as a `ref` argument
//! makes the runtime panic in CallStack::get_temporary_variable_with_name
//! (callstack.rs: `context_element.unwrap()`), instead of reporting a story error.
use bladeink::story::Story;
use bladeink_compiler::Compiler;
use std::panic::{catch_unwind, AssertUnwindSafe};

const INK: &str = r#"
VAR g = 0
{ g == 1:
    ~ temp x = 1
}
~ bump(x)
done {g}
-> END
=== function bump(ref a)
~ a = a + 1
"#;

const INK_KNOT_NAME: &str = r#"
~ bump(k)
-> END
=== k
hi
-> END
=== function bump(ref a)
~ a = a + 1
"#;

fn play(src: &str) -> Result<String, String> {
    let json = Compiler::new().compile(src).expect("the compiler accepts the program");
    let mut story = Story::new(&json).expect("the story loads");
    let mut out = String::new();
    while story.can_continue() {
        match story.cont() {
            Ok(line) => out.push_str(&line),
            Err(e) => return Err(e.to_string()),
        }
    }
    Ok(out)
}

#[test]
fn ref_argument_naming_an_undeclared_temp_is_an_error_not_a_panic() {
    for (name, src) in [("skipped temp declaration", INK), ("knot name", INK_KNOT_NAME)] {
        let r = catch_unwind(AssertUnwindSafe(|| play(src)));
        match r {
            Ok(outcome) => println!("{name}: {outcome:?}"), // Ok(text) or Err(story error): both fine
            Err(_) => panic!("{name}: the runtime panicked while playing a compiler-accepted story"),
        }
    }
}
