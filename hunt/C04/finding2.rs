//! C04 finding 2: Story::next_content() calls itself once for every thread that ends at the
//! same moment, so a story that nests N threads (a six line program) overflows the native
//! stack and the process is aborted (SIGABRT, "thread ... has overflowed its stack").
//! N = 3000 is enough for a debug build on the 2 MiB stack of a test thread; 200000 also
//! kills a release build on an 8 MiB main-thread stack.
use bladeink::story::Story;
use bladeink_compiler::Compiler;

fn program(depth: u32) -> String {
    format!(
        "<- a({depth})\nstart\n-> DONE\n=== a(n)\n{{n == 0: -> DONE}}\n<- a(n - 1)\n"
    )
}

fn play(depth: u32) -> String {
    let json = Compiler::new().compile(&program(depth)).expect("compiles");
    let mut story = Story::new(&json).expect("loads");
    let mut out = String::new();
    while story.can_continue() {
        match story.cont() {
            Ok(line) => out.push_str(&line),
            Err(e) => return format!("ERR {e}"),
        }
    }
    out
}

#[test]
fn shallow_thread_nesting_works() {
    assert_eq!(play(300), "start\n");
}

#[test]
fn deep_thread_nesting_does_not_abort_the_process() {
    // Same program, deeper: must give the same text (or a story error), not kill the process.
    // Run on a thread with the default 2 MiB stack so the result does not depend on
    // RUST_MIN_STACK / the harness.
    let h = std::thread::Builder::new()
        .stack_size(2 * 1024 * 1024)
        .spawn(|| play(200_000))
        .unwrap();
    let out = h.join().expect("no panic");
    assert!(out == "start\n" || out.starts_with("ERR"), "{out}");
}
