//! C04 finding 3: after a host jump to an index just past the end of a container (which
//! choose_path_string accepts and Story::step explicitly supports: "A pointer past the end
//! of its container (a host jump to an index that does not exist) has no content to add;
//! the flow moves on from there"), save_state() panics in Thread::write_json
//! (callstack.rs: `self.previous_pointer.resolve().unwrap()`), because the thread's
//! "previous pointer" is that unresolvable pointer.
use bladeink::story::Story;
use bladeink_compiler::Compiler;
use std::panic::{catch_unwind, AssertUnwindSafe};

#[test]
fn save_after_jump_past_the_end_of_a_container() {
    let json = Compiler::new().compile("Hello\nWorld\n").unwrap();
    let mut story = Story::new(&json).unwrap();

    // root is [[ "^Hello","\n","^World","\n",[..g-0..] ], "done"]: container "0" has 5 elements
    story
        .choose_path_string("0.99", true, None)
        .expect("the jump is accepted");
    while story.can_continue() {
        story.cont().expect("the flow moves on to the `done` after the container");
    }

    let saved = catch_unwind(AssertUnwindSafe(|| story.save_state()));
    assert!(
        saved.is_ok(),
        "save_state panicked instead of returning Ok(json) or Err(..)"
    );
}
