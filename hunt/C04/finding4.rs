//! C04 finding 4: a host jump (choose_path_string, optionally with arguments) that lands on
//! the `du` (duplicate) command of a switch-style conditional, or on a `listInt` command,
//! panics: control_logic.rs `peek_evaluation_stack().unwrap()` (Duplicate on an empty
//! evaluation stack) and `list_name_val.as_ref().unwrap()` (ListFromInt whose list name
//! operand is not a string). Every other command reports an empty / ill-typed evaluation
//! stack as a story error ("Tried to take a value from the evaluation stack, but it is empty").
use bladeink::{story::Story, value_type::ValueType};
use bladeink_compiler::Compiler;
use std::panic::{catch_unwind, AssertUnwindSafe};

const INK: &str = r#"
LIST l = a, b
VAR x = 2
{x:
- 1: one
- 2: two
}
{l(x)}
-> END
"#;
// root[0] = ["ev",{"VAR?":"x"},"/ev",["du","ev",1,"==",...],["du",...],"nop","\n",
//            "ev","^l",{"VAR?":"x"},"listInt","out","/ev","\n","end",...]

fn jump(json: &str, path: &str, args: Option<Vec<ValueType>>) -> bool {
    let mut story = Story::new(json).unwrap();
    catch_unwind(AssertUnwindSafe(|| {
        if story.choose_path_string(path, true, args.as_ref()).is_ok() {
            while story.can_continue() {
                if story.cont().is_err() {
                    break;
                }
            }
        }
    }))
    .is_ok()
}

#[test]
fn jump_onto_duplicate_with_empty_stack() {
    let json = Compiler::new().compile(INK).unwrap();
    assert!(jump(&json, "0.3", None), "`du` on an empty evaluation stack panicked");
}

#[test]
fn jump_onto_list_from_int_with_non_string_name() {
    let json = Compiler::new().compile(INK).unwrap();
    assert!(
        jump(&json, "0.10", Some(vec![ValueType::Int(1), ValueType::Int(2)])),
        "`listInt` with a non-string list name panicked"
    );
}
