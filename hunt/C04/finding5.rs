//! C04 finding 5: tags_for_content_at_path() panics (tags.rs: `.container().unwrap()`) when
//! the path names something that is not a container (any text line, e.g. "0.0" or "knot.0").
//! Unknown paths are fine (they are approximated), only exact non-container hits panic.
use bladeink::story::Story;
use bladeink_compiler::Compiler;
use std::panic::{catch_unwind, AssertUnwindSafe};

#[test]
fn tags_for_a_path_that_is_not_a_container() {
    let json = Compiler::new()
        .compile("# global\nHello\n-> k\n=== k\n# ktag\nin k\n-> END\n")
        .unwrap();
    let story = Story::new(&json).unwrap();
    assert_eq!(story.tags_for_content_at_path("k").unwrap(), vec!["ktag"]);
    assert!(story.tags_for_content_at_path("nosuch").is_ok());
    for p in ["0.0", "k.0", "1"] {
        let r = catch_unwind(AssertUnwindSafe(|| story.tags_for_content_at_path(p)));
        assert!(r.is_ok(), "tags_for_content_at_path({p:?}) panicked");
    }
}
