//! C05 finding 1: `-else:` (no blank between the dash and `else`) in a `{ cond: ... }` block is
//! not recognised as the else branch. The Rust compiler turns it into the text line "else:" inside
//! the TRUE branch, so the real else branch is lost when the condition is false, and when the
//! condition is true the story prints the true branch, then "else:", then the else branch.
//!
//! Corpus witness: conformance-tests/inkfiles/TheIntercept.ink line 487-491
//! (knot harris_demands_you_speak, choice [Confess]); the reference-compiled
//! TheIntercept.ink.json has a proper two-branch conditional there.
//!
//! Copy to conformance-tests/tests/ and run:
//!   cargo test --offline -p conformance-tests --test finding1

use std::{fs, path::Path};

use bladeink::{story::Story, value_type::ValueType};
use bladeink_compiler::Compiler;

fn fmt_value(v: &ValueType) -> String {
    match v {
        ValueType::Bool(b) => format!("bool:{b}"),
        ValueType::Int(i) => format!("int:{i}"),
        ValueType::Float(f) => format!("float:{f:?}"),
        ValueType::String(s) => format!("str:{:?}", s.string),
        ValueType::DivertTarget(p) => format!("divert:{p}"),
        ValueType::VariablePointer(_) => "varptr".to_string(),
        ValueType::List(l) => {
            let mut items: Vec<String> = l.items.iter().map(|(k, v)| format!("{k}={v}")).collect();
            items.sort();
            format!("list:[{}]", items.join(","))
        }
    }
}

/// Names of the global variables declared by a compiled story.
fn global_names(json: &str) -> Vec<String> {
    fn walk(v: &serde_json::Value, out: &mut Vec<String>) {
        match v {
            serde_json::Value::Array(a) => a.iter().for_each(|x| walk(x, out)),
            serde_json::Value::Object(o) => {
                if let Some(serde_json::Value::String(n)) = o.get("VAR=") {
                    out.push(n.clone());
                }
                o.values().for_each(|x| walk(x, out));
            }
            _ => {}
        }
    }
    let v: serde_json::Value = serde_json::from_str(json).unwrap();
    let mut out = Vec::new();
    if let Some(g) = v["root"].as_array().and_then(|r| r.last()).and_then(|l| l.get("global decl")) {
        walk(g, &mut out);
    }
    out.sort();
    out
}

/// Plays `json` along `path` (choice indices) and returns everything the property talks about:
/// lines with their tags, the choices offered (text + tags), and the final global values.
fn play(json: &str, path: &[usize], globals: &[String]) -> Vec<String> {
    let mut story = Story::new(json).unwrap();
    // same seed for both stories (The Intercept uses no randomness anyway)
    let mut st: serde_json::Value = serde_json::from_str(&story.save_state().unwrap()).unwrap();
    st["storySeed"] = serde_json::json!(42);
    st["previousRandom"] = serde_json::json!(0);
    story.load_state(&st.to_string()).unwrap();

    let mut t = Vec::new();
    let mut step = 0;
    loop {
        while story.can_continue() {
            let line = story.cont().unwrap();
            let tags = story.get_current_tags().unwrap();
            t.push(format!("LINE {line:?} TAGS {tags:?}"));
        }
        let choices = story.get_current_choices();
        for c in &choices {
            t.push(format!("CHOICE {:?} TAGS {:?}", c.text, c.tags));
        }
        if choices.is_empty() || step == path.len() {
            break;
        }
        story.choose_choice_index(path[step]).unwrap();
        t.push(format!("CHOSE {}", path[step]));
        step += 1;
    }
    for n in globals {
        t.push(format!("VAR {n} = {}", story.get_variable(n).map(|v| fmt_value(&v)).unwrap_or_default()));
    }
    t
}

fn intercept_pair() -> (String, String) {
    let dir = Path::new(env!("CARGO_MANIFEST_DIR")).join("inkfiles");
    let source = fs::read_to_string(dir.join("TheIntercept.ink")).unwrap();
    let reference = fs::read_to_string(dir.join("TheIntercept.ink.json")).unwrap();
    let reference = reference.trim_start_matches('\u{feff}').to_string();
    let compiled = Compiler::new().compile(&source).unwrap();
    (reference, compiled)
}

fn first_difference(a: &[String], b: &[String]) -> String {
    for i in 0..a.len().max(b.len()) {
        let x = a.get(i).map(String::as_str).unwrap_or("<nothing>");
        let y = b.get(i).map(String::as_str).unwrap_or("<nothing>");
        if x != y {
            return format!("first difference at transcript entry {i}:\n  reference: {x}\n  rust     : {y}");
        }
    }
    "no difference".to_string()
}

/// forceful <= 1 when [Confess] is chosen: the reference story says
/// `"All right. I'll tell you what happened." And never mind my shame.`; the Rust-compiled story
/// skips that line.
#[test]
fn intercept_confess_with_low_forceful_loses_the_else_branch() {
    let (reference, compiled) = intercept_pair();
    let globals = global_names(&reference);
    let path = [0, 2, 2, 0, 1, 1, 0, 1, 0, 1, 2, 1, 0];
    let expected = play(&reference, &path, &globals);
    let actual = play(&compiled, &path, &globals);
    assert!(
        expected.iter().any(|l| l.contains("And never mind my shame.")),
        "the path no longer reaches the else branch of harris_demands_you_speak/[Confess]"
    );
    assert!(expected == actual, "{}", first_difference(&expected, &actual));
}

/// forceful > 1 when [Confess] is chosen: the Rust-compiled story prints the true branch, then a
/// spurious line "else:", then the else branch as well.
#[test]
fn intercept_confess_with_high_forceful_prints_else_colon() {
    let (reference, compiled) = intercept_pair();
    let globals = global_names(&reference);
    let path = [0, 2, 2, 1, 1, 3, 1, 1, 1, 1, 0, 1, 2, 0];
    let expected = play(&reference, &path, &globals);
    let actual = play(&compiled, &path, &globals);
    assert!(
        expected.iter().any(|l| l.contains("You'll be disgusted.")),
        "the path no longer reaches the true branch of harris_demands_you_speak/[Confess]"
    );
    assert!(expected == actual, "{}", first_difference(&expected, &actual));
}

/// The same construct in isolation.
#[test]
fn minimal_dash_else_without_blank() {
    let ink = "VAR x = 0\n{ x > 1:\n  big\n-else:\n  small\n}\nafter\n";
    let json = Compiler::new().compile(ink).unwrap();
    let mut story = Story::new(&json).unwrap();
    assert_eq!("small\nafter\n", story.continue_maximally().unwrap());

    let ink = "VAR x = 2\n{ x > 1:\n  big\n-else:\n  small\n}\nafter\n";
    let json = Compiler::new().compile(ink).unwrap();
    let mut story = Story::new(&json).unwrap();
    assert_eq!("big\nafter\n", story.continue_maximally().unwrap());
}
