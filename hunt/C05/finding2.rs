//! C05 finding 2: a choice's body line that is not indented deeper than the choice's own `*`
//! is not taken as part of that choice's body. The Rust parser (which, unlike Ink, looks at
//! indentation) ends the choice there and treats the line like a gather: the sibling choices that
//! follow are no longer offered together with it but only after it has been taken.
//!
//! Corpus witness: conformance-tests/inkfiles/TheIntercept.ink lines 819-829
//! (knot harris_takes_you_to_hooper, choice [Call to Hooper]):
//!
//!         * * "Queen to rook two, checkmate!"[] I call, ...
//!         - - (only_catch) I only catch Hooper's reaction ...
//!         * * "Ask not for whom the bell tolls!"
//!        He stares back at me, ...                 <- same column as the `* *` above
//!         * * "Two words: messy, without one missing!"[] I cry, ...
//!             ~ hooperClueType = CROSSWORD
//!        -> only_catch
//!
//! After "Queen to rook two" the reference-compiled story (TheIntercept.ink.json, container
//! harris_takes_you_to_hooper...only_catch) offers BOTH `"Ask not..."` and `"Two words..."`;
//! the Rust-compiled story offers only `"Ask not..."`.
//!
//! Copy to conformance-tests/tests/ and run:
//!   cargo test --offline -p conformance-tests --test finding2

use std::{fs, path::Path};

use bladeink::{story::Story, value_type::ValueType};
use bladeink_compiler::Compiler;

fn fmt_value(v: &ValueType) -> String {
    match v {
        ValueType::Bool(b) => format!("bool:{b}"),
        ValueType::Int(i) => format!("int:{i}"),
        ValueType::Float(f) => format!("float:{f:?}"),
        ValueType::String(s) => format!("str:{:?}", s.string),
        ValueType::DivertTarget(p) => format!("divert:{p}"),
        ValueType::VariablePointer(_) => "varptr".to_string(),
        ValueType::List(l) => {
            let mut items: Vec<String> = l.items.iter().map(|(k, v)| format!("{k}={v}")).collect();
            items.sort();
            format!("list:[{}]", items.join(","))
        }
    }
}

fn global_names(json: &str) -> Vec<String> {
    fn walk(v: &serde_json::Value, out: &mut Vec<String>) {
        match v {
            serde_json::Value::Array(a) => a.iter().for_each(|x| walk(x, out)),
            serde_json::Value::Object(o) => {
                if let Some(serde_json::Value::String(n)) = o.get("VAR=") {
                    out.push(n.clone());
                }
                o.values().for_each(|x| walk(x, out));
            }
            _ => {}
        }
    }
    let v: serde_json::Value = serde_json::from_str(json).unwrap();
    let mut out = Vec::new();
    if let Some(g) = v["root"].as_array().and_then(|r| r.last()).and_then(|l| l.get("global decl")) {
        walk(g, &mut out);
    }
    out.sort();
    out
}

fn play(json: &str, path: &[usize], globals: &[String]) -> Vec<String> {
    let mut story = Story::new(json).unwrap();
    let mut st: serde_json::Value = serde_json::from_str(&story.save_state().unwrap()).unwrap();
    st["storySeed"] = serde_json::json!(42);
    st["previousRandom"] = serde_json::json!(0);
    story.load_state(&st.to_string()).unwrap();

    let mut t = Vec::new();
    let mut step = 0;
    loop {
        while story.can_continue() {
            let line = story.cont().unwrap();
            let tags = story.get_current_tags().unwrap();
            t.push(format!("LINE {line:?} TAGS {tags:?}"));
        }
        let choices = story.get_current_choices();
        for c in &choices {
            t.push(format!("CHOICE {:?} TAGS {:?}", c.text, c.tags));
        }
        if choices.is_empty() || step == path.len() {
            break;
        }
        story.choose_choice_index(path[step]).unwrap();
        t.push(format!("CHOSE {}", path[step]));
        step += 1;
    }
    for n in globals {
        t.push(format!("VAR {n} = {}", story.get_variable(n).map(|v| fmt_value(&v)).unwrap_or_default()));
    }
    t
}

fn first_difference(a: &[String], b: &[String]) -> String {
    for i in 0..a.len().max(b.len()) {
        let x = a.get(i).map(String::as_str).unwrap_or("<nothing>");
        let y = b.get(i).map(String::as_str).unwrap_or("<nothing>");
        if x != y {
            return format!("first difference at transcript entry {i}:\n  reference: {x}\n  rust     : {y}");
        }
    }
    "no difference".to_string()
}

#[test]
fn intercept_call_to_hooper_offers_both_remaining_shouts() {
    let dir = Path::new(env!("CARGO_MANIFEST_DIR")).join("inkfiles");
    let source = fs::read_to_string(dir.join("TheIntercept.ink")).unwrap();
    let reference = fs::read_to_string(dir.join("TheIntercept.ink.json")).unwrap();
    let reference = reference.trim_start_matches('\u{feff}').to_string();
    let compiled = Compiler::new().compile(&source).unwrap();
    let globals = global_names(&reference);

    // ... [Call to Hooper] (2), then "Queen to rook two, checkmate!" (0)
    let path = [0, 1, 2, 0, 2, 1, 1, 1, 1, 0, 2, 1, 1, 1, 0, 1, 0, 0, 0, 2, 0];
    let expected = play(&reference, &path, &globals);
    let actual = play(&compiled, &path, &globals);
    assert!(
        expected.iter().any(|l| l.starts_with("CHOICE \"\\\"Two words: messy")),
        "the path no longer reaches the choices after the only_catch gather"
    );
    assert!(expected == actual, "{}", first_difference(&expected, &actual));
}

/// The same construct in isolation: in Ink indentation means nothing, `body of B` belongs to
/// choice B, and B and C are offered together.
#[test]
fn minimal_choice_body_in_the_column_of_its_marker() {
    let ink = "* B\nbody of B\n* C\n- end\n";
    let json = Compiler::new().compile(ink).unwrap();
    let mut story = Story::new(&json).unwrap();
    story.continue_maximally().unwrap();
    let offered: Vec<String> = story.get_current_choices().iter().map(|c| c.text.clone()).collect();
    assert_eq!(vec!["B".to_string(), "C".to_string()], offered);
    story.choose_choice_index(0).unwrap();
    assert_eq!("B\nbody of B\nend\n", story.continue_maximally().unwrap());
    assert!(story.get_current_choices().is_empty());
}
