// C06 finding 1: a LIST item with the explicit value 4294967295 makes the compiler panic
// (`attempt to add with overflow`, compiler/src/parser/declarations.rs, parse_list_declaration)
// in any build with overflow checks (the default `cargo test` / dev profile). In a release
// build the counter silently wraps to 0 instead.
//
// Run: cp _hunt/finding1.rs conformance-tests/tests/ && cargo test -p conformance-tests --test finding1
use bladeink_compiler::Compiler;

#[test]
fn list_item_value_u32_max_does_not_panic() {
    let source = "LIST l = a = 4294967295\n{l}\n";
    let outcome = std::panic::catch_unwind(|| Compiler::new().compile(source));
    assert!(
        outcome.is_ok(),
        "the compiler panicked instead of returning Ok(story) or Err(CompilerError)"
    );
}

#[test]
fn list_item_after_u32_max_does_not_wrap_to_zero() {
    // Same defect seen from a build without overflow checks: `b` silently gets the value 0.
    let source = "LIST l = a = 4294967295, b\n{l}\n";
    let outcome = std::panic::catch_unwind(|| Compiler::new().compile(source));
    match outcome {
        Err(_) => panic!("the compiler panicked"),
        Ok(Ok(json)) => assert!(
            !json.contains("\"b\":0"),
            "item after 4294967295 wrapped around to 0: {json}"
        ),
        Ok(Err(_)) => {} // a compiler error is the acceptable outcome
    }
}
