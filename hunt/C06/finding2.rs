// C06 finding 2: labelled gathers that go one weave level deeper on every line
// (`-(l1)`, `--(l2)`, `---(l3)` ...) are not counted by nesting::check_weave_depth, so
// emitter::collect_choice_labels_recursive (compiler/src/emitter/flow.rs) recurses once per
// level without taking a nesting::Level. About 400 levels (an 85 KB source) overflow the 2 MiB
// stack of a test / spawned thread in the dev profile and abort the whole process; an optimised
// build needs about 2500 levels. Below the overflow the same input costs O(n^3) label scans
// (200 lines: 3.4 s, 800 lines: 112 s in a release build).
//
// Run: cp _hunt/finding2.rs conformance-tests/tests/ && cargo test -p conformance-tests --test finding2
// The test process dies with "thread ... has overflowed its stack / SIGABRT".
use bladeink_compiler::Compiler;

fn source(levels: usize) -> String {
    (1..=levels)
        .map(|level| format!("{}(l{level}) a\n", "-".repeat(level)))
        .collect()
}

#[test]
fn deeper_and_deeper_labelled_gathers_do_not_overflow_the_stack() {
    let levels = if cfg!(debug_assertions) { 600 } else { 3500 };
    let source = source(levels);
    // The default stack of a spawned thread, which compiler/src/nesting.rs promises to respect.
    let outcome = std::thread::Builder::new()
        .stack_size(2 * 1024 * 1024)
        .spawn(move || Compiler::new().compile(&source).map(|_| ()))
        .unwrap()
        .join();
    // Either Ok(story) or Err("nesting too deep ...") would satisfy the property.
    assert!(outcome.is_ok(), "the compiler panicked");
}
