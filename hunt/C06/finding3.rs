// C06 finding 3: a float literal too large for f32 (40 digits or more before the point) makes
// the compiler panic with "ryu produced invalid number" (compiler/src/emitter/context.rs,
// float_to_json): `"1000…0.0".parse::<f32>()` gives +inf, which is not a JSON number.
// Panics in every profile.
use bladeink_compiler::Compiler;

#[test]
fn float_literal_beyond_f32_does_not_panic() {
    let source = "{1000000000000000000000000000000000000000.0}\n"; // 1e39
    let outcome = std::panic::catch_unwind(|| Compiler::new().compile(source));
    assert!(
        outcome.is_ok(),
        "the compiler panicked instead of returning Ok(story) or Err(CompilerError)"
    );
}

#[test]
fn float_global_beyond_f32_does_not_panic() {
    let source = "VAR x = 340282356779733661637539395458142568448.0\n{x}\n"; // f32::MAX rounded up
    let outcome = std::panic::catch_unwind(|| Compiler::new().compile(source));
    assert!(outcome.is_ok(), "the compiler panicked");
}
