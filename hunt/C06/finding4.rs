// C06 finding 4: a knot or stitch whose name is made of digits only is accepted
// (parser::expression::parse_path_identifier takes any run of [A-Za-z0-9_.]), but the runtime --
// and the compiler's own references::parse_path -- read a numeric path component as an INDEX.
// `-> 1` therefore does not go to knot `1` but to element 1 of the root container, and
// `-> k.2` goes to the third element of knot k's content instead of stitch `2`.
// The story compiles, loads, and the divert "resolves", but not to the content it names.
// (inklecate refuses a number-only identifier.)
use bladeink::story::Story;
use bladeink_compiler::Compiler;

fn run(json: &str) -> Vec<String> {
    let mut story = Story::new(json).unwrap();
    let mut lines = Vec::new();
    while story.can_continue() && lines.len() < 20 {
        lines.push(story.cont().unwrap().trim().to_owned());
    }
    lines
}

#[test]
fn divert_to_a_numeric_knot_reaches_that_knot_or_is_refused() {
    let source = "Start\n-> 1\n== 1 ==\nIn knot one\n-> END\n";
    if let Ok(json) = Compiler::new().compile(source) {
        assert_eq!(vec!["Start", "In knot one"], run(&json), "compiled story: {json}");
    }
}

#[test]
fn divert_to_a_numeric_stitch_reaches_that_stitch_or_is_refused() {
    let source = "Start\n-> k.2\n== k ==\nfirst line\nsecond line\nthird\n-> END\n= 2\nIn stitch two\n-> END\n";
    if let Ok(json) = Compiler::new().compile(source) {
        assert_eq!(vec!["Start", "In stitch two"], run(&json), "compiled story: {json}");
    }
}
