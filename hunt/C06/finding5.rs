// C06 finding 5: a divert to a bare name is looked up in the table of ROOT-level labels before
// anything in the current knot is considered (emitter::EmitScope::resolve_divert_target calls
// resolve_qualified_choice_label first, and root labels are stored there under their bare name).
// Inside knot `k`, `-> top` with k's own gather `(top)` in scope -- or `-> x` with k's own stitch
// `x` -- is compiled to the root weave's label of the same name. Read counts of the same name in
// the same place (`{top}`) do resolve to the local label, so the two disagree.
// Ink resolves a name from the innermost scope outwards.
use bladeink::story::Story;
use bladeink_compiler::Compiler;

fn run(json: &str) -> Vec<String> {
    let mut story = Story::new(json).unwrap();
    let mut lines = Vec::new();
    while story.can_continue() && lines.len() < 12 {
        lines.push(story.cont().unwrap().trim().to_owned());
    }
    lines
}

#[test]
fn divert_to_label_prefers_the_label_of_the_current_knot() {
    let source = "\
- (top) root gather
-> k
== k ==
- (top) gather in k
{top > 1: -> END}
-> top
";
    let json = Compiler::new().compile(source).unwrap();
    assert_eq!(
        vec!["root gather", "gather in k", "gather in k"],
        run(&json),
        "compiled story: {json}"
    );
}

#[test]
fn divert_to_stitch_of_the_current_knot_is_not_captured_by_a_root_label() {
    let source = "\
- (x) root gather
-> k
== k ==
in k
-> x
= x
stitch x
-> END
";
    let json = Compiler::new().compile(source).unwrap();
    assert_eq!(
        vec!["root gather", "in k", "stitch x"],
        run(&json),
        "compiled story: {json}"
    );
}

#[test]
fn stitch_of_another_knot_is_not_reachable_by_its_bare_name() {
    // From knot k1, `b2` names nothing: inklecate reports "Divert target not found: '-> b2'".
    let source = "-> k1\n== k1 ==\nA\n-> b2\n== k2 ==\n= b2\nB2\n-> END\n";
    assert!(
        Compiler::new().compile(source).is_err(),
        "'-> b2' was silently bound to k2.b2"
    );
}
