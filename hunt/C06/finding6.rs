// C06 finding 6: names in expressions and assignments are never resolved. The validator only
// checks diverts and call targets (compiler/src/validator/variables.rs looks at a `forbidden`
// set and nothing else), and emitter::expression emits `{"VAR?": name}` / `{"VAR=": name,
// "re": true}` for whatever it is given. A misspelt variable, knot (read count) or list item
// compiles and surfaces only when the story runs: as the runtime ERROR "Could not find temporary
// variable to set" or the warning "Variable not found ... Using default value of 0".
// inklecate: "Unresolved variable: nope" at compile time.
use bladeink_compiler::Compiler;

#[test]
fn assignment_to_an_undeclared_variable_is_refused() {
    let source = "~ nope = 5\n{nope}\n";
    assert!(Compiler::new().compile(source).is_err());
}

#[test]
fn read_of_an_unknown_name_is_refused() {
    // `nowhere` is neither a variable nor a knot/stitch/label whose visits could be counted.
    let source = "{nowhere}\n== somewhere ==\n-> END\n";
    assert!(Compiler::new().compile(source).is_err());
}

#[test]
fn unknown_list_item_in_a_list_literal_is_refused() {
    let source = "LIST l = a, b\n{l ? (c)}\n";
    assert!(Compiler::new().compile(source).is_err());
}
