// C06 finding 7 (well-formedness of the output, not a reference): `* [] text` -- a choice whose
// square brackets are empty, which inklecate accepts with the warning "Blank choice" -- is
// emitted as a choice point whose flags claim choice-only content (flg & 4) although no
// `ev str … /str /ev` that would push that content is emitted (parser::choice::parse_choice_text
// sets has_choice_only_content = true for an empty `[]`). The runtime pops the missing string
// and the story dies on its first Continue with "Tried to take a value from the evaluation
// stack, but it is empty".
use bladeink::story::Story;
use bladeink_compiler::Compiler;

#[test]
fn choice_with_empty_brackets_gives_a_story_that_runs() {
    let source = "* [] text after\n-> END\n";
    let Ok(json) = Compiler::new().compile(source) else {
        return; // refusing it would at least not hand out a broken story
    };
    let mut story = Story::new(&json).unwrap();
    while story.can_continue() {
        story.cont().unwrap_or_else(|e| panic!("{e}\ncompiled story: {json}"));
    }
    assert_eq!(1, story.get_current_choices().len(), "compiled story: {json}");
    story.choose_choice_index(0).unwrap();
    assert_eq!("text after\n", story.cont().unwrap());
}
