// C06 finding 8: the compiler hangs. compile() loads the story it has just built
// (`Story::new`, which runs the "global decl" container) on the assumption that
// references::check_story_references has kept calls and diverts out of the global declarations.
// That check skips every object with `"var": true`, and a call through a global variable
// (`VAR y = f()` where f is itself a VAR) is emitted as `{"f()":"f","var":true}`. The initial
// value of `y` therefore runs story content while the compiler is loading the story; if that
// content loops, `Compiler::compile` never returns.
use std::{sync::mpsc, time::Duration};

use bladeink_compiler::Compiler;

#[test]
fn call_through_a_variable_in_a_global_initialiser_does_not_hang_the_compiler() {
    let source = "\
VAR f = -> k
VAR y = f()
Hello {y}
== k ==
-> k
";
    let (tx, rx) = mpsc::channel();
    std::thread::spawn(move || {
        let _ = tx.send(Compiler::new().compile(source).map(|_| ()));
    });
    match rx.recv_timeout(Duration::from_secs(20)) {
        // inklecate: "Initial value of a global variable must be a constant" style error.
        Ok(result) => assert!(result.is_err(), "VAR y = f() compiled"),
        Err(_) => panic!("Compiler::compile has not returned after 20 s"),
    }
}
