// C06 finding 9 (well-formedness of the output, not a reference): a multi-line sequence without
// any branch (`{ shuffle:` directly followed by `}`), which inklecate refuses, is compiled to a
// sequence over zero elements: `"ev","visit",0,"seq","/ev"` for shuffle, `"visit",0,"%"` for
// cycle (parser::sequence::parse_sequence returns `branches: vec![]`, emitter::expression's
// sequence emission never checks branch_count > 0). The story loads, and the first Continue
// makes the runtime PANIC with "attempt to divide by zero" (shuffle) or fail with
// "Modulo by zero" (cycle).
use bladeink::story::Story;
use bladeink_compiler::Compiler;

fn runs(source: &str) {
    let Ok(json) = Compiler::new().compile(source) else {
        return; // a compile error is the reference behaviour
    };
    let outcome = std::panic::catch_unwind(|| {
        let mut story = Story::new(&json).unwrap();
        let mut text = String::new();
        while story.can_continue() {
            text.push_str(&story.cont().map_err(|e| e.to_string())?);
        }
        Ok::<String, String>(text)
    });
    match outcome {
        Err(_) => panic!("the runtime panicked on the compiled story {json}"),
        Ok(Err(error)) => panic!("{error}\ncompiled story: {json}"),
        Ok(Ok(text)) => assert_eq!("end\n", text),
    }
}

#[test]
fn empty_shuffle_block() {
    runs("{ shuffle:\n}\nend\n");
}

#[test]
fn empty_cycle_block() {
    runs("{ cycle:\n}\nend\n");
}
