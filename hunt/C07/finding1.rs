// C07 finding 1: a CONST used inside a string literal's {..}, in divert / thread
// arguments, in a tag or in choice text is not replaced by its value: the expression
// evaluates to 0 ("Variable not found") instead of the constant.
use bladeink::story::Story;
use bladeink_compiler::Compiler;

/// Compile `ink`, play it to the end (no choices), return all text.
fn play(ink: &str) -> String {
    let json = Compiler::new()
        .compile(ink)
        .unwrap_or_else(|e| panic!("valid ink was rejected by the compiler: {e:?}\n{ink}"));
    let mut story = Story::new(&json).unwrap();
    let mut out = String::new();
    while story.can_continue() {
        out.push_str(&story.cont().unwrap());
    }
    out
}

#[test]
fn const_inside_string_literal() {
    let out = play("CONST c = 5\n{\"v={c}\"}\n");
    assert_eq!("v=5\n", out);
}

#[test]
fn const_stored_through_string_expression() {
    let out = play("CONST c = 5\nVAR s = \"\"\n~ s = \"n\" + \"{c + 1}\"\n{s}\n");
    assert_eq!("n6\n", out);
}

#[test]
fn const_as_divert_argument() {
    let out = play("CONST c = 5\n-> k(c + 1)\n== k(p)\np={p}\n-> END\n");
    assert_eq!("p=6\n", out);
}

#[test]
fn const_as_thread_argument() {
    let out = play("CONST c = 5\n<- th(c)\n-> DONE\n== th(q)\nq={q}\n-> DONE\n");
    assert_eq!("q=5\n", out);
}

#[test]
fn const_in_tag_and_choice_text() {
    let ink = "CONST c = 5\nText # tag {c}\n* [choice {c}] chosen {c}\n    -> END\n";
    let json = Compiler::new().compile(ink).unwrap();
    let mut story = Story::new(&json).unwrap();
    story.cont().unwrap();
    assert_eq!(vec!["tag 5".to_owned()], story.get_current_tags().unwrap());
    while story.can_continue() {
        story.cont().unwrap();
    }
    assert_eq!("choice 5", story.get_current_choices()[0].text);
    story.choose_choice_index(0).unwrap();
    assert_eq!("chosen 5\n", story.cont().unwrap());
}
