// C07 finding 2: a string literal may contain any inline logic ("{cond:a|b}", "{&a|b}"),
// but only plain "{expr}" is compiled; anything else makes the emitter fall back to the
// raw source text, so the string's value contains the braces and the source of the logic.
use bladeink::story::Story;
use bladeink_compiler::Compiler;

/// Compile `ink`, play it to the end (no choices), return all text.
fn play(ink: &str) -> String {
    let json = Compiler::new()
        .compile(ink)
        .unwrap_or_else(|e| panic!("valid ink was rejected by the compiler: {e:?}\n{ink}"));
    let mut story = Story::new(&json).unwrap();
    let mut out = String::new();
    while story.can_continue() {
        out.push_str(&story.cont().unwrap());
    }
    out
}

#[test]
fn conditional_inside_string_literal() {
    let out = play("VAR x = 5\nVAR s = \"\"\n~ s = \"{x > 3:big|small}\"\n[{s}]\n");
    assert_eq!("[big]\n", out);
}

#[test]
fn conditional_without_else_inside_string_literal() {
    let out = play("VAR x = 5\nVAR s = \"\"\n~ s = \"pre {x > 3:big} post\"\n[{s}]\n");
    assert_eq!("[pre big post]\n", out);
}

#[test]
fn sequence_inside_string_literal() {
    let out = play("VAR s = \"\"\n~ s = \"{&one|two}\"\n[{s}]\n");
    assert_eq!("[one]\n", out);
}

#[test]
fn string_comparison_with_inner_conditional() {
    let out = play("VAR x = 5\n~ temp same = \"big\" == \"{x > 3:big|small}\"\n{same}\n");
    assert_eq!("true\n", out);
}
