// C07 finding 3: an empty list that knows its origin (after "~ e = ()" over a list of A)
// is saved as {"list":{}} without "origins", so after save + load LIST_ALL / LIST_INVERT
// of the same variable evaluate to the empty list instead of all items of A.
use bladeink::story::Story;
use bladeink_compiler::Compiler;

const INK: &str = "LIST A = a1, a2, a3\nVAR e = (a1)\n~ e = ()\nfirst [{LIST_ALL(e)}] [{LIST_INVERT(e)}]\nsecond [{LIST_ALL(e)}] [{LIST_INVERT(e)}]\n";

#[test]
fn empty_list_keeps_origin_over_save_and_load() {
    let json = Compiler::new().compile(INK).unwrap();

    // without save / load
    let mut story = Story::new(&json).unwrap();
    assert_eq!("first [a1, a2, a3] [a1, a2, a3]\n", story.cont().unwrap());
    assert_eq!("second [a1, a2, a3] [a1, a2, a3]\n", story.cont().unwrap());

    // the same, saved and loaded between the two lines
    let mut story = Story::new(&json).unwrap();
    assert_eq!("first [a1, a2, a3] [a1, a2, a3]\n", story.cont().unwrap());
    let saved = story.save_state().unwrap();
    let mut loaded = Story::new(&json).unwrap();
    loaded.load_state(&saved).unwrap();
    assert_eq!(
        "second [a1, a2, a3] [a1, a2, a3]\n",
        loaded.cont().unwrap(),
        "saved state: {saved}"
    );
}
