// C07 finding 4: a condition whose text ends in "()" is taken to be a bare function call
// named by everything in front of the "()", so "x == one()", "not zero()", "L == A()"
// are rejected ("Function not found: 'x == one'") instead of being evaluated.
use bladeink::story::Story;
use bladeink_compiler::Compiler;

/// Compile `ink`, play it to the end (no choices), return all text.
fn play(ink: &str) -> String {
    let json = Compiler::new()
        .compile(ink)
        .unwrap_or_else(|e| panic!("valid ink was rejected by the compiler: {e:?}\n{ink}"));
    let mut story = Story::new(&json).unwrap();
    let mut out = String::new();
    while story.can_continue() {
        out.push_str(&story.cont().unwrap());
    }
    out
}

const FUNCS: &str = "-> END\n== function one()\n~ return 1\n== function zero()\n~ return 0\n";

#[test]
fn inline_condition_ending_in_call() {
    let out = play(&format!("VAR x = 1\n{{x == one(): yes|no}}\n{FUNCS}"));
    assert_eq!("yes\n", out);
}

#[test]
fn negated_call_condition() {
    let out = play(&format!("{{not zero(): yes|no}}\n{FUNCS}"));
    assert_eq!("yes\n", out);
}

#[test]
fn comparison_with_empty_list_of_origin() {
    let out = play(&format!(
        "LIST A = a1, a2\nVAR L = ()\n{{L == A(): yes|no}}\n{FUNCS}"
    ));
    assert_eq!("yes\n", out);
}

#[test]
fn multiline_branch_condition_ending_in_call() {
    let out = play(&format!(
        "VAR x = 1\n{{\n- x == one(): yes\n- else: no\n}}\n{FUNCS}"
    ));
    assert_eq!("yes\n", out);
}
