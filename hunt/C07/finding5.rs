// C07 finding 5: in a call statement "~ f(args)" an argument expression that contains '='
// ("==", ">=", "<=", "!=", or a string with '=') makes the line be split as an assignment
// at that '=', and the program is rejected. The same call inside {..} or on the right of
// "~ v = ..." works.
use bladeink::story::Story;
use bladeink_compiler::Compiler;

/// Compile `ink`, play it to the end (no choices), return all text.
fn play(ink: &str) -> String {
    let json = Compiler::new()
        .compile(ink)
        .unwrap_or_else(|e| panic!("valid ink was rejected by the compiler: {e:?}\n{ink}"));
    let mut story = Story::new(&json).unwrap();
    let mut out = String::new();
    while story.can_continue() {
        out.push_str(&story.cont().unwrap());
    }
    out
}

const SHOW: &str = "-> END\n== function show(v)\nv={v}\n";

#[test]
fn call_statement_with_equality_argument() {
    let out = play(&format!("VAR x = 1\n~ show(x == 1)\n{SHOW}"));
    assert_eq!("v=true\n", out);
}

#[test]
fn call_statement_with_greater_or_equal_argument() {
    let out = play(&format!("VAR x = 1\n~ show(x >= 2)\n{SHOW}"));
    assert_eq!("v=false\n", out);
}

#[test]
fn call_statement_with_string_argument_containing_equals() {
    let out = play(&format!("~ show(\"a=b\")\n{SHOW}"));
    assert_eq!("v=a=b\n", out);
}
