// C07 finding 6: inside {..} the first ':' anywhere - also inside a string literal - is
// taken as the end of a condition, so string expressions with a colon are rejected
// ("unterminated string literal"). The same expressions after "~ s =" compile and work.
use bladeink::story::Story;
use bladeink_compiler::Compiler;

/// Compile `ink`, play it to the end (no choices), return all text.
fn play(ink: &str) -> String {
    let json = Compiler::new()
        .compile(ink)
        .unwrap_or_else(|e| panic!("valid ink was rejected by the compiler: {e:?}\n{ink}"));
    let mut story = Story::new(&json).unwrap();
    let mut out = String::new();
    while story.can_continue() {
        out.push_str(&story.cont().unwrap());
    }
    out
}

#[test]
fn string_literal_with_colon_in_braces() {
    assert_eq!("a:b\n", play("{\"a:b\"}\n"));
}

#[test]
fn concatenation_with_colon_in_braces() {
    assert_eq!("Ann: hi\n", play("VAR name = \"Ann\"\n{name + \": hi\"}\n"));
}

#[test]
fn comparison_with_colon_string_as_condition() {
    assert_eq!("yes\n", play("VAR s = \"a:b\"\n{s == \"a:b\": yes|no}\n"));
}
