// C10 finding 1: the evaluation stack is one per story, not one per flow.
// Anything a flow leaves on it while the host is busy with another flow is
// consumed by (or buried under the values of) that other flow.
//
// Run: copy to conformance-tests/tests/ and
//   cargo test --offline -p conformance-tests --test finding1
use bladeink::{story::Story, value_type::ValueType};
use bladeink_compiler::Compiler;

const INK_ARGS: &str = r#"
-> DONE
=== greet_a(x)
A got {x}
-> DONE
=== greet_b(y)
B got {y}
-> DONE
"#;

fn alone(json: &str, flow: &str, knot: &str, arg: i32) -> String {
    let mut s = Story::new(json).unwrap();
    s.switch_flow(flow).unwrap();
    s.choose_path_string(knot, true, Some(&vec![ValueType::Int(arg)]))
        .unwrap();
    s.cont().unwrap()
}

/// Jumping (with an argument) in flow B changes what flow A shows next.
#[test]
fn jump_with_arguments_in_one_flow_changes_the_other() {
    let json = Compiler::new().compile(INK_ARGS).unwrap();

    let a_alone = alone(&json, "A", "greet_a", 1);
    let b_alone = alone(&json, "B", "greet_b", 2);
    assert_eq!(a_alone, "A got 1\n");
    assert_eq!(b_alone, "B got 2\n");

    let mut s = Story::new(&json).unwrap();
    s.switch_flow("A").unwrap();
    s.choose_path_string("greet_a", true, Some(&vec![ValueType::Int(1)]))
        .unwrap();
    s.switch_flow("B").unwrap();
    s.choose_path_string("greet_b", true, Some(&vec![ValueType::Int(2)]))
        .unwrap();

    s.switch_flow("A").unwrap();
    let a = s.cont().unwrap();
    s.switch_flow("B").unwrap();
    let b = s.cont().unwrap();

    assert_eq!((a, b), (a_alone, b_alone)); // actual: ("A got 2\n", "B got 1\n")
}

/// Removing a flow does not remove what it left behind: flow B then shows A's argument.
#[test]
fn removed_flow_leaves_its_arguments_to_the_next_flow() {
    let json = Compiler::new().compile(INK_ARGS).unwrap();
    let b_alone = alone(&json, "B", "greet_b", 2);

    let mut s = Story::new(&json).unwrap();
    s.switch_flow("B").unwrap();
    s.choose_path_string("greet_b", true, Some(&vec![ValueType::Int(2)]))
        .unwrap();
    s.switch_flow("A").unwrap();
    s.choose_path_string("greet_a", true, Some(&vec![ValueType::Int(1)]))
        .unwrap();
    s.remove_flow("A").unwrap();

    s.switch_flow("B").unwrap();
    assert_eq!(s.cont().unwrap(), b_alone); // actual: "B got 1\n"
}

// No host arguments needed: a flow that is suspended inside a function whose
// result is an operand of an expression has that expression's other operand
// on the shared stack.
const INK_FUNC: &str = r#"
-> DONE
=== ka
~ temp r = 1 + fa()
A {r}
-> DONE
=== function fa()
fa one
fa two
~ return 10
=== kb
~ temp r = 100 + fb()
B {r}
-> DONE
=== function fb()
fb one
fb two
~ return 20
"#;

fn run_alone(json: &str, flow: &str, knot: &str) -> Vec<String> {
    let mut s = Story::new(json).unwrap();
    s.switch_flow(flow).unwrap();
    s.choose_path_string(knot, true, None).unwrap();
    let mut out = vec![];
    while s.can_continue() {
        out.push(s.cont().unwrap());
    }
    out
}

#[test]
fn continuing_one_flow_changes_the_value_another_flow_computes() {
    let json = Compiler::new().compile(INK_FUNC).unwrap();
    let a_alone = run_alone(&json, "A", "ka");
    let b_alone = run_alone(&json, "B", "kb");
    assert_eq!(a_alone, vec!["fa one\n", "fa two\n", "A 11\n"]);
    assert_eq!(b_alone, vec!["fb one\n", "fb two\n", "B 120\n"]);

    let mut s = Story::new(&json).unwrap();
    s.switch_flow("A").unwrap();
    s.choose_path_string("ka", true, None).unwrap();
    s.switch_flow("B").unwrap();
    s.choose_path_string("kb", true, None).unwrap();

    let mut a = vec![];
    let mut b = vec![];
    // A, B, then A to its end, then B to its end
    s.switch_flow("A").unwrap();
    a.push(s.cont().unwrap());
    s.switch_flow("B").unwrap();
    b.push(s.cont().unwrap());
    s.switch_flow("A").unwrap();
    while s.can_continue() {
        a.push(s.cont().unwrap());
    }
    s.switch_flow("B").unwrap();
    while s.can_continue() {
        b.push(s.cont().unwrap());
    }

    assert_eq!((a, b), (a_alone, b_alone)); // actual: A 110 and B 21
}
