// C10 finding 2: after loading a save in the pre-flows format (inkSaveVersion 8,
// still accepted: MIN_COMPATIBLE_LOAD_VERSION = 8) the default flow is called
// "default" instead of "DEFAULT_FLOW". Switching away from it and back with
// switch_to_default_flow() / switch_flow("DEFAULT_FLOW") then does not come back
// to it: a brand new flow is created at the top of the story, and the loaded
// position is left behind in an ordinary, removable flow named "default".
use bladeink::story::Story;
use bladeink_compiler::Compiler;

const INK: &str = r#"
Line one.
Line two.
Line three.
-> DONE
=== other
Other.
-> DONE
"#;

/// The same state, written the way ink save version 8 wrote it (one implicit flow).
fn to_v8(save: &str) -> String {
    let mut v: serde_json::Value = serde_json::from_str(save).unwrap();
    let flow = v["flows"]["DEFAULT_FLOW"].clone();
    let o = v.as_object_mut().unwrap();
    o.remove("flows");
    o.remove("currentFlowName");
    o.insert("callstackThreads".into(), flow["callstack"].clone());
    o.insert("outputStream".into(), flow["outputStream"].clone());
    o.insert("currentChoices".into(), flow["currentChoices"].clone());
    o.insert("inkSaveVersion".into(), serde_json::json!(8));
    v.to_string()
}

#[test]
fn switching_away_and_back_after_loading_an_old_save() {
    let json = Compiler::new().compile(INK).unwrap();

    let mut s = Story::new(&json).unwrap();
    assert_eq!(s.cont().unwrap(), "Line one.\n");
    let new_format = s.save_state().unwrap();
    let old_format = to_v8(&new_format);

    // Control: with the current format the round trip below is a no-op.
    for (label, save) in [("v10", &new_format), ("v8", &old_format)] {
        let mut s = Story::new(&json).unwrap();
        s.load_state(save).unwrap();
        assert_eq!(s.get_current_text().unwrap(), "Line one.\n", "{label}");

        s.switch_flow("A").unwrap();
        s.choose_path_string("other", true, None).unwrap();
        assert_eq!(s.cont().unwrap(), "Other.\n", "{label}");

        s.switch_to_default_flow();
        // back in the default flow: its pending text and its position are unchanged
        assert_eq!(s.get_current_text().unwrap(), "Line one.\n", "{label}");
        assert_eq!(s.cont().unwrap(), "Line two.\n", "{label}");
    }
}
