// C11 finding 1: a host assignment of an empty list notifies observers with a value that is not
// the value the variable now has (the variable keeps the old list's origins, the notified value
// does not).
//
// Run: copy to conformance-tests/tests/ and
//   cargo test --offline -p conformance-tests --test finding1
use std::{cell::RefCell, rc::Rc};

use bladeink::{
    story::{Story, variable_observer::VariableObserver},
    value_type::ValueType,
};
use bladeink_compiler::Compiler;

const INK: &str = "\
LIST L = a, b, c
VAR l = (a)
VAR e = ()
Hello
-> END

=== function all_of(x)
~ return LIST_ALL(x)
";

struct Keep(Rc<RefCell<Vec<(String, ValueType)>>>);

impl VariableObserver for Keep {
    fn changed(&mut self, name: &str, value: &ValueType) {
        self.0.borrow_mut().push((name.to_string(), value.clone()));
    }
}

fn all_of(story: &mut Story, v: &ValueType) -> String {
    let mut out = String::new();
    let r = story
        .evaluate_function("all_of", Some(&vec![v.clone()]), &mut out)
        .unwrap()
        .unwrap();
    match r {
        ValueType::List(l) => l.to_string(),
        _ => panic!("list expected"),
    }
}

#[test]
fn host_assignment_of_empty_list_notifies_the_stored_value() {
    let json = Compiler::new().compile(INK).unwrap();
    let mut story = Story::new(&json).unwrap();

    let seen = Rc::new(RefCell::new(Vec::new()));
    let obs: Rc<RefCell<dyn VariableObserver>> = Rc::new(RefCell::new(Keep(seen.clone())));
    story.observe_variable("l", obs).unwrap();

    // an empty list without origins, as the host gets it from the story
    let empty = story.get_variable("e").unwrap();
    story.set_variable("l", &empty).unwrap();

    // notified immediately and once
    assert_eq!(1, seen.borrow().len());
    let (name, notified) = seen.borrow()[0].clone();
    assert_eq!("l", name);
    let polled = story.get_variable("l").unwrap();

    let (ValueType::List(n), ValueType::List(p)) = (&notified, &polled) else {
        panic!("lists expected");
    };
    // the variable `l` is still a list of L (Ink's rule: an empty list assigned over a list keeps
    // that list's origins), so LIST_ALL(l) is a, b, c ...
    assert_eq!("a, b, c", all_of(&mut story, &polled));
    // ... and the value handed to the observer must be that same value
    assert_eq!(
        all_of(&mut story, &polled),
        all_of(&mut story, &notified),
        "LIST_ALL of the notified value differs from LIST_ALL of the variable"
    );
    assert_eq!(
        p.get_origin_names(),
        n.get_origin_names(),
        "origins of the notified value differ from those of the variable"
    );
}
