// C12 finding 1: an external call used as the condition of an inline conditional
// `{f(x): a|b}` inside choice text, a tag or a string literal is never made
// (the compiler does not compile inline conditionals in these positions).
use std::{cell::RefCell, rc::Rc};

use bladeink::{
    story::{external_functions::ExternalFunction, Story},
    value_type::ValueType,
};
use bladeink_compiler::Compiler;

struct Logger {
    log: Rc<RefCell<Vec<String>>>,
}

impl ExternalFunction for Logger {
    fn call(&mut self, name: &str, args: Vec<ValueType>) -> Option<ValueType> {
        let a: Vec<String> = args
            .iter()
            .map(|v| v.coerce_to_string().unwrap_or_default())
            .collect();
        self.log.borrow_mut().push(format!("{}({})", name, a.join(",")));
        Some(ValueType::Int(1))
    }
}

fn story_with(ink: &str, safe: bool) -> (Story, Rc<RefCell<Vec<String>>>) {
    let json = Compiler::new().compile(ink).expect("valid ink must compile");
    let mut story = Story::new(&json).unwrap();
    let log = Rc::new(RefCell::new(Vec::new()));
    story
        .bind_external_function("f", Rc::new(RefCell::new(Logger { log: log.clone() })), safe)
        .unwrap();
    (story, log)
}

// Control: the same conditional in ordinary line text works.
#[test]
fn control_inline_conditional_in_line_text() {
    let (mut story, log) = story_with("EXTERNAL f(x)\nT {f(1): yes|no}\n", true);
    assert_eq!("T yes\n", story.continue_maximally().unwrap());
    assert_eq!(vec!["f(1)".to_string()], *log.borrow());
}

#[test]
fn external_condition_in_choice_text_is_called() {
    let (mut story, log) = story_with("EXTERNAL f(x)\n* ch {f(1): yes|no}\n  -> END\n", true);
    story.continue_maximally().unwrap();
    let choices = story.get_current_choices();
    assert_eq!(1, choices.len());
    // actual: "ch f(1): yes" and f is never called
    assert_eq!("ch yes", choices[0].text);
    assert_eq!(vec!["f(1)".to_string()], *log.borrow());
}

#[test]
fn external_condition_in_tag_is_called() {
    let (mut story, log) = story_with("EXTERNAL f(x)\nT # tag {f(1): yes|no}\n", true);
    assert_eq!("T\n", story.cont().unwrap());
    // actual: ["tag f(1): yes"] and f is never called
    assert_eq!(vec!["tag yes".to_string()], story.get_current_tags().unwrap());
    assert_eq!(vec!["f(1)".to_string()], *log.borrow());
}

#[test]
fn external_condition_in_string_literal_is_called() {
    let (mut story, log) = story_with(
        "EXTERNAL f(x)\n~ temp s = \"a {f(1): yes|no} b\"\n{s}\n",
        true,
    );
    // actual: "a a {f(1): yes|no} b b\n" and f is never called
    assert_eq!("a yes b\n", story.continue_maximally().unwrap());
    assert_eq!(vec!["f(1)".to_string()], *log.borrow());
}

// A function bound as NOT look-ahead-safe must be refused with an error here;
// instead nothing happens at all (no call, no error, wrong text).
#[test]
fn unsafe_external_condition_in_choice_text_is_refused() {
    let (mut story, log) = story_with("EXTERNAL f(x)\n* ch {f(1): yes|no}\n  -> END\n", false);
    let result = story.continue_maximally();
    assert!(log.borrow().is_empty());
    assert!(
        result.is_err(),
        "expected the refusal error, got {:?} with choice text {:?}",
        result,
        story.get_current_choices().iter().map(|c| c.text.clone()).collect::<Vec<_>>()
    );
}
