// C12 finding 2: an external call written inside the ink function of the same name
// (a recursive ink fallback) is looked up under the name ".^" instead of its own name,
// so the story cannot be continued at all - bound or unbound, fallbacks allowed or not.
use std::{cell::RefCell, rc::Rc};

use bladeink::{
    story::{external_functions::ExternalFunction, Story},
    value_type::ValueType,
};
use bladeink_compiler::Compiler;

const INK: &str = "EXTERNAL sum_to(x)
{sum_to(3)}
=== function sum_to(x)
{ x <= 0:
    ~ return 0
}
~ return x + sum_to(x - 1)
";

struct Host;
impl ExternalFunction for Host {
    fn call(&mut self, _: &str, args: Vec<ValueType>) -> Option<ValueType> {
        let x = args[0].coerce_to_int().unwrap();
        Some(ValueType::Int(x * (x + 1) / 2))
    }
}

// Control: the very same story with a one-letter name works ("f" is shorter than ".^").
#[test]
fn control_short_name_uses_fallback() {
    let ink = INK.replace("sum_to", "f");
    let mut story = Story::new(&Compiler::new().compile(&ink).unwrap()).unwrap();
    story.set_allow_external_function_fallbacks(true);
    assert_eq!("6\n", story.continue_maximally().unwrap());
}

#[test]
fn unbound_external_uses_its_recursive_ink_fallback() {
    let mut story = Story::new(&Compiler::new().compile(INK).unwrap()).unwrap();
    story.set_allow_external_function_fallbacks(true);
    // actual: Err("ERROR: Missing function binding for external: '.^' , and no fallback ink function found.")
    assert_eq!("6\n", story.continue_maximally().unwrap());
}

#[test]
fn bound_external_is_called_although_the_ink_fallback_is_recursive() {
    let mut story = Story::new(&Compiler::new().compile(INK).unwrap()).unwrap();
    story
        .bind_external_function("sum_to", Rc::new(RefCell::new(Host)), true)
        .unwrap();
    // actual: Err("ERROR: Missing function binding for external: '.^'  (ink fallbacks disabled)")
    assert_eq!("6\n", story.continue_maximally().unwrap());
}
