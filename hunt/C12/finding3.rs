// C12 finding 3: a story document whose external call carries "var":true makes the
// first continue panic (Option::unwrap on None in validate_external_bindings_rtobject)
// instead of failing with an error - whether or not the function is bound.
use std::{cell::RefCell, rc::Rc};

use bladeink::{
    story::{external_functions::ExternalFunction, Story},
    value_type::ValueType,
};

struct Host;
impl ExternalFunction for Host {
    fn call(&mut self, _: &str, _: Vec<ValueType>) -> Option<ValueType> {
        Some(ValueType::Int(1))
    }
}

const JSON: &str = r#"{"inkVersion":21,"root":[["ev",{"x()":"f","var":true},"out","/ev","\n","done",null],"done",{"f":["ev",7,"/ev","~ret",null]}],"listDefs":{}}"#;

#[test]
fn external_call_with_var_flag_is_an_error_not_a_panic() {
    for (bind, fallbacks) in [(true, false), (false, true), (false, false)] {
        let outcome = std::panic::catch_unwind(|| {
            let mut story = Story::new(JSON).expect("the loader accepts this document");
            if bind {
                story
                    .bind_external_function("f", Rc::new(RefCell::new(Host)), true)
                    .unwrap();
            }
            story.set_allow_external_function_fallbacks(fallbacks);
            story.cont().map_err(|e| e.to_string())
        });
        assert!(
            outcome.is_ok(),
            "first continue panicked (bind={bind}, fallbacks={fallbacks})"
        );
    }
}
