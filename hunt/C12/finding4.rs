// C12 finding 4 (minor): in choice text, a string argument of an external call that
// contains '[' ']' or '#' is cut up by the choice-line splitter, which is not aware of
// {..} / "..": the call is dropped from the choice text and, once the choice is taken,
// the host receives a DIFFERENT argument value ("a c" instead of "a[b]c").
use std::{cell::RefCell, rc::Rc};

use bladeink::{
    story::{external_functions::ExternalFunction, Story},
    value_type::ValueType,
};
use bladeink_compiler::Compiler;

struct Logger {
    log: Rc<RefCell<Vec<String>>>,
}
impl ExternalFunction for Logger {
    fn call(&mut self, _: &str, args: Vec<ValueType>) -> Option<ValueType> {
        self.log.borrow_mut().push(args[0].coerce_to_string().unwrap());
        args.first().cloned()
    }
}

#[test]
fn string_argument_with_brackets_in_choice_text_reaches_the_host_unchanged() {
    let ink = "EXTERNAL f(a)\n* ch {f(\"a[b]c\")}\n  -> END\n";
    let json = Compiler::new().compile(ink).expect("valid ink must compile");
    let mut story = Story::new(&json).unwrap();
    let log = Rc::new(RefCell::new(Vec::new()));
    story
        .bind_external_function("f", Rc::new(RefCell::new(Logger { log: log.clone() })), true)
        .unwrap();
    story.continue_maximally().unwrap();
    // actual: no call at all, choice text is `ch {f("ab`
    assert_eq!(vec!["a[b]c".to_string()], *log.borrow());
    assert_eq!("ch a[b]c", story.get_current_choices()[0].text);
    story.choose_choice_index(0).unwrap();
    story.continue_maximally().unwrap();
    // actual: the host is called with "a c"
    assert!(log.borrow().iter().all(|a| a == "a[b]c"), "{:?}", log.borrow());
}
