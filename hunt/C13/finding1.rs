// C13 finding 1: with an error handler set, a warning is delivered TWICE when the line is
// produced by time-sliced continue_async() calls and a slice ends while the story is looking
// ahead past a newline. The same story run with cont() delivers it once.
//
// Run: copy to conformance-tests/tests/ and
//   cargo test --offline -p conformance-tests --test finding1
use std::{cell::RefCell, rc::Rc};

use bladeink::story::{
    Story,
    errors::{ErrorHandler, ErrorType},
};

struct Log(Vec<String>);
impl ErrorHandler for Log {
    fn error(&mut self, message: &str, _t: ErrorType) {
        self.0.push(message.to_string());
    }
}

// Variant A: the warning (read of an unknown variable) is raised BEFORE the newline of line 1;
// the look-ahead after that newline is a long silent loop, then "b".
//   start: {nope}a \n -> loop
//   loop : ~ i = i + 1   { i < 10000: -> loop }   b \n END
const WARN_BEFORE_NEWLINE: &str = r#"{"inkVersion":21,"root":[[{"->":"start"},null],"done",{
"start":["ev",{"VAR?":"nope"},"out","/ev","^a","\n",{"->":"loop"},null],
"loop":["ev",{"VAR?":"i"},1,"+",{"VAR=":"i","re":true},{"VAR?":"i"},10000,"<","/ev",{"->":"loop","c":true},"^b","\n","end",null],
"global decl":["ev",0,{"VAR=":"i"},"/ev","end",null]}],"listDefs":{}}"#;

// Variant B: the warning is raised DURING the look-ahead after line 1's newline (between two
// long silent loops); the look-ahead is rolled back and the code runs again in continue 2.
const WARN_IN_LOOKAHEAD: &str = r#"{"inkVersion":21,"root":[[{"->":"start"},null],"done",{
"start":["^a","\n",{"->":"loop"},null],
"loop":["ev",{"VAR?":"i"},1,"+",{"VAR=":"i","re":true},{"VAR?":"i"},10000,"<","/ev",{"->":"loop","c":true},"ev",{"VAR?":"nope"},"pop","/ev",{"->":"loop2"},null],
"loop2":["ev",{"VAR?":"j"},1,"+",{"VAR=":"j","re":true},{"VAR?":"j"},10000,"<","/ev",{"->":"loop2","c":true},"^b","\n","end",null],
"global decl":["ev",0,{"VAR=":"i"},0,{"VAR=":"j"},"/ev","end",null]}],"listDefs":{}}"#;

/// Runs the whole story; every line is produced with continue_async(ms) slices
/// (ms == 0.0: one plain synchronous continue per line).
fn run(json: &str, ms: f32) -> (usize, Vec<String>, Vec<String>) {
    let mut story = Story::new(json).unwrap();
    let log = Rc::new(RefCell::new(Log(Vec::new())));
    story.set_error_handler(log.clone());

    let mut slices = 0;
    let mut lines = Vec::new();
    while story.can_continue() {
        loop {
            story.continue_async(ms).unwrap();
            slices += 1;
            // get_current_text is refused while a time-sliced continue is unfinished
            if let Ok(text) = story.get_current_text() {
                lines.push(text);
                break;
            }
        }
    }
    let delivered = log.borrow().0.clone();
    (slices, lines, delivered)
}

fn check(json: &str, first_line: &str) {
    let (_, lines, delivered) = run(json, 0.0);
    assert_eq!(lines, vec![first_line.to_string(), "b\n".to_string()]);
    assert_eq!(delivered.len(), 1, "synchronous baseline: {delivered:?}");

    // 0.001 ms: a slice ends as soon as the clock has advanced by a millisecond
    let (slices, lines, delivered) = run(json, 0.001);
    assert_eq!(lines, vec![first_line.to_string(), "b\n".to_string()]);
    assert!(slices > 4, "the loops are long enough to be cut into many slices");
    assert_eq!(
        delivered.len(),
        1,
        "one warning was raised, the handler got {}: {delivered:#?}",
        delivered.len()
    );
}

#[test]
fn warning_raised_before_the_newline_is_delivered_once_when_time_sliced() {
    check(WARN_BEFORE_NEWLINE, "0a\n");
}

#[test]
fn warning_raised_in_rolled_back_lookahead_is_delivered_once_when_time_sliced() {
    check(WARN_IN_LOOKAHEAD, "a\n");
}
