// C13 finding 2: without an error handler a warning is never forgotten. It stays in
// get_current_warnings() over every later continue, is counted in the Err of a later continue
// that raised no warning, and is handed to an error handler installed later by a continue
// that raised nothing.
//
// Run: copy to conformance-tests/tests/ and
//   cargo test --offline -p conformance-tests --test finding2
use std::{cell::RefCell, rc::Rc};

use bladeink::story::{
    Story,
    errors::{ErrorHandler, ErrorType},
};

struct Log(Vec<String>);
impl ErrorHandler for Log {
    fn error(&mut self, message: &str, _t: ErrorType) {
        self.0.push(message.to_string());
    }
}

// {nope}a      <- line 1: warning "Variable not found: 'nope'"
// b            <- line 2: nothing
// c            <- line 3: nothing
// {1/0}        <- line 4: error "Division by zero"
const STORY: &str = r#"{"inkVersion":21,"root":[["ev",{"VAR?":"nope"},"out","/ev","^a","\n","^b","\n","^c","\n","ev",1,0,"/","out","/ev","\n","end",null],"done",null],"listDefs":{}}"#;

#[test]
fn a_later_continue_does_not_show_the_earlier_warning_again() {
    let mut story = Story::new(STORY).unwrap();

    assert_eq!(story.cont().unwrap(), "0a\n");
    assert_eq!(story.get_current_warnings().len(), 1); // readable after its own continue

    assert_eq!(story.cont().unwrap(), "b\n"); // raises nothing
    assert!(
        story.get_current_warnings().is_empty(),
        "continue 2 raised nothing but shows: {:?}",
        story.get_current_warnings()
    );
}

#[test]
fn the_err_of_a_later_continue_counts_only_its_own_messages() {
    let mut story = Story::new(STORY).unwrap();

    assert_eq!(story.cont().unwrap(), "0a\n"); // the warning
    assert_eq!(story.cont().unwrap(), "b\n");
    assert_eq!(story.cont().unwrap(), "c\n");
    let err = story.cont().unwrap_err().to_string(); // the error, and no warning
    assert!(
        !err.contains("warning"),
        "continue 4 raised one error and no warning, but says: {err}"
    );
}

#[test]
fn a_handler_set_later_is_not_given_a_message_of_an_earlier_continue() {
    let mut story = Story::new(STORY).unwrap();

    assert_eq!(story.cont().unwrap(), "0a\n");
    // delivered: the host can read it now
    assert_eq!(story.get_current_warnings().len(), 1);
    assert_eq!(story.cont().unwrap(), "b\n");

    let log = Rc::new(RefCell::new(Log(Vec::new())));
    story.set_error_handler(log.clone());
    assert_eq!(story.cont().unwrap(), "c\n"); // raises nothing
    assert!(
        log.borrow().0.is_empty(),
        "continue 3 raised nothing but delivered: {:?}",
        log.borrow().0
    );
}
