// C16 finding 1: a refused evaluate_function (story has an EXTERNAL that the host has
// not bound yet) leaves the function's frame and its arguments in the story; after the
// host binds the external, the main story runs the function body and then stops.
use std::{cell::RefCell, rc::Rc};

use bladeink::{
    story::{external_functions::ExternalFunction, Story},
    value_type::ValueType,
};
use bladeink_compiler::Compiler;

struct Ext;
impl ExternalFunction for Ext {
    fn call(&mut self, _name: &str, _args: Vec<ValueType>) -> Option<ValueType> {
        Some(ValueType::Int(7))
    }
}

const INK: &str = r#"
EXTERNAL ext(a)
Hello
World {ext(3)}
-> END
== function double(x)
Doubling {x}
~ return x * 2
"#;

fn play(story: &mut Story) -> Vec<String> {
    let mut lines = Vec::new();
    while story.can_continue() {
        lines.push(story.cont().unwrap());
    }
    lines
}

#[test]
fn refused_evaluate_function_leaves_the_story_unchanged() {
    let json = Compiler::new().compile(INK).unwrap();

    // Reference run: bind, then play.
    let mut plain = Story::new(&json).unwrap();
    plain
        .bind_external_function("ext", Rc::new(RefCell::new(Ext)), true)
        .unwrap();
    let expected = play(&mut plain);
    assert_eq!(expected, vec!["Hello\n".to_string(), "World 7\n".to_string()]);

    // Same, but the host evaluates a pure ink function before it has bound the external.
    let mut story = Story::new(&json).unwrap();
    let before = story.save_state().unwrap();

    let mut text = String::new();
    let refused = story.evaluate_function("double", Some(&vec![ValueType::Int(4)]), &mut text);
    assert!(refused.is_err(), "the call is refused: 'ext' is not bound yet");

    let after = story.save_state().unwrap();

    story
        .bind_external_function("ext", Rc::new(RefCell::new(Ext)), true)
        .unwrap();
    let got = play(&mut story);

    assert_eq!(expected, got, "main story after a refused evaluate_function");
    assert_eq!(before, after, "state after a refused evaluate_function");
}
