// C16 finding 2: a function whose body starts a thread (`<- knot`, accepted by the
// compiler and working when the function is called from ink) is cut short when the
// host evaluates it, and the story's callstack keeps the extra thread and the
// function frame: the main story then replays the rest of the function.
use bladeink::story::Story;
use bladeink_compiler::Compiler;

const INK: &str = r#"
Hello
From ink: {f()}
World
-> DONE
== function f()
F before
<- thr
F after
~ return 1
== thr
T1
-> DONE
"#;

fn play(story: &mut Story) -> Vec<String> {
    let mut lines = Vec::new();
    while story.can_continue() {
        lines.push(story.cont().unwrap());
    }
    lines
}

#[test]
fn function_with_thread_evaluated_from_host() {
    let json = Compiler::new().compile(INK).unwrap();

    let mut plain = Story::new(&json).unwrap();
    let expected = play(&mut plain);
    // what the function does when ink calls it
    assert_eq!(
        expected,
        vec![
            "Hello\n".to_string(),
            "From ink: F before\n".to_string(),
            "T1\n".to_string(),
            "F after1\n".to_string(),
            "World\n".to_string()
        ]
    );

    let mut story = Story::new(&json).unwrap();
    assert_eq!(story.cont().unwrap(), "Hello\n");
    let before = story.save_state().unwrap();

    let mut text = String::new();
    let result = story.evaluate_function("f", None, &mut text).unwrap();
    let after = story.save_state().unwrap();

    let mut rest = vec!["Hello\n".to_string()];
    rest.extend(play(&mut story));

    println!("text {text:?} value {:?}", result.as_ref().and_then(|v| v.get::<i32>()));
    println!("main story: {rest:?}");
    assert_eq!(expected, rest, "main story after the host call");
    assert_eq!(text, "F before\nT1\nF after\n", "text printed by f");
    assert_eq!(result.and_then(|v| v.get::<i32>()), Some(1), "value of f");
    let strip = |s: &str| {
        let mut v: serde_json::Value = serde_json::from_str(s).unwrap();
        v["visitCounts"] = serde_json::Value::Null; // f and thr are counted: allowed
        v
    };
    assert_eq!(strip(&before), strip(&after), "state after the host call");
}
