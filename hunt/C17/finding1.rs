// C17 finding 1: reset_state() loses the "ink version mismatch" warning that a freshly
// constructed Story of the same program carries, so a reset story is distinguishable
// from a new one (get_current_warnings, and what the error handler receives on the
// first continue).
use bladeink::story::Story;
use bladeink::story::errors::{ErrorHandler, ErrorType};
use std::{cell::RefCell, rc::Rc};

struct Collect(Vec<String>);
impl ErrorHandler for Collect {
    fn error(&mut self, m: &str, t: ErrorType) {
        let k = if t == ErrorType::Warning { "W" } else { "E" };
        self.0.push(format!("{k}:{m}"));
    }
}

// A valid story in format version 20 (INK_VERSION_MINIMUM_COMPATIBLE is 18, current is 21).
const JSON: &str = r##"{"inkVersion":20,"root":[["^Line.","\n",["done",{"#n":"g-0"}],null],"done",null],"listDefs":{}}"##;

#[test]
fn reset_story_equals_fresh_story_pending_warnings() {
    let fresh = Story::new(JSON).unwrap();
    let mut reset = Story::new(JSON).unwrap();
    reset.reset_state().unwrap();
    assert_eq!(
        fresh.get_current_warnings(),
        reset.get_current_warnings(),
        "a reset story must look like a freshly constructed one"
    );
}

#[test]
fn reset_story_equals_fresh_story_first_continue_with_handler() {
    let mut fresh = Story::new(JSON).unwrap();
    let mut reset = Story::new(JSON).unwrap();
    reset.reset_state().unwrap();

    let hf = Rc::new(RefCell::new(Collect(vec![])));
    let hr = Rc::new(RefCell::new(Collect(vec![])));
    fresh.set_error_handler(hf.clone());
    reset.set_error_handler(hr.clone());

    assert_eq!(fresh.cont().unwrap(), reset.cont().unwrap());
    assert_eq!(
        hf.borrow().0,
        hr.borrow().0,
        "the error handler must be told the same things by a fresh and by a reset story"
    );
}
