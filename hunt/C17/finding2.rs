// C17 finding 2: choose_path_string(path, reset_call_stack = true, ..) abandons the
// function the story is in, but not the operands that the abandoned call's caller had
// already put on the evaluation stack. They stay there for the rest of the game
// (visible in every save) and are consumed as "arguments" by the target of the jump.
use bladeink::story::Story;
use bladeink_compiler::Compiler;

const INK: &str = r#"
VAR x = 0
~ x = 10 + f()
{x}
-> END

=== function f()
A
B
~ return 1

=== other(y)
y={y}
-> END

=== plain
plain
-> END
"#;

fn eval_stack_len(story: &Story) -> usize {
    let v: serde_json::Value = serde_json::from_str(&story.save_state().unwrap()).unwrap();
    v["evalStack"].as_array().unwrap().len()
}

#[test]
fn jump_with_callstack_reset_abandons_the_pending_expression() {
    let json = Compiler::new().compile(INK).unwrap();
    let mut story = Story::new(&json).unwrap();

    // Stops inside f(), which was called from the middle of `10 + f()`.
    assert_eq!("A\n", story.cont().unwrap());

    story.choose_path_string("plain", true, None).unwrap();
    assert_eq!("plain\n", story.continue_maximally().unwrap());

    // The function was abandoned, so nothing of the expression that called it may survive.
    assert_eq!(0, eval_stack_len(&story), "operand of the abandoned call is still on the evaluation stack");
}

#[test]
fn jump_with_callstack_reset_does_not_feed_leftovers_to_the_target() {
    let json = Compiler::new().compile(INK).unwrap();

    // Reference: jumping to a knot that wants an argument without giving one is an error.
    let mut fresh = Story::new(&json).unwrap();
    fresh.choose_path_string("other", true, None).unwrap();
    let fresh_result = fresh.continue_maximally().map_err(|_| "error");

    // Same jump, made while the story is inside f(): must behave the same, since the
    // jump "abandons all tunnels, threads and functions".
    let mut story = Story::new(&json).unwrap();
    assert_eq!("A\n", story.cont().unwrap());
    story.choose_path_string("other", true, None).unwrap();
    let result = story.continue_maximally().map_err(|_| "error");

    assert_eq!(fresh_result, result); // actual: Ok("y=10\n") -- the 10 of `10 + f()`
}
