/* LD_PRELOAD seam for every source of OS entropy the harness's subject reads (std's HashMap
 * RandomState keys, rand::rng() seeding): getrandom()/getentropy() answer from VERIF_ENTROPY and a
 * call counter, so hash-map iteration order becomes a pure function of VERIF_ENTROPY.
 * Build: cc -O2 -shared -fPIC -o getrandom_shim.so getrandom_shim.c */
#define _GNU_SOURCE
#include <stdint.h>
#include <stdlib.h>
#include <string.h>
#include <sys/types.h>

static uint64_t counter = 0;

static void fill(void *buf, size_t len) {
    const char *e = getenv("VERIF_ENTROPY");
    uint64_t base = e ? strtoull(e, 0, 10) : 0;
    unsigned char *p = (unsigned char *)buf;
    for (size_t i = 0; i < len; i++) {
        uint64_t x = (base + 1) * 0x9E3779B97F4A7C15ULL + (counter++) * 0xBF58476D1CE4E5B9ULL;
        x ^= x >> 31;
        x *= 0x94D049BB133111EBULL;
        x ^= x >> 29;
        p[i] = (unsigned char)(x >> 24);
    }
}

ssize_t getrandom(void *buf, size_t buflen, unsigned int flags) {
    (void)flags;
    fill(buf, buflen);
    return (ssize_t)buflen;
}

int getentropy(void *buf, size_t buflen) {
    fill(buf, buflen);
    return 0;
}
