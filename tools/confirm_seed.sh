#!/bin/bash
# confirm_seed.sh <seed-dir>  : confirms in a scratch worktree that (1) the patch applies and builds, (2) the
# repository's own suite still passes with it, (3) the demonstration fails with it and (4) passes without it.
# Writes <seed-dir>/confirm.json. Scratch worktree and shared target dir are outside /repo and /verif.
set -u
SEED=$(realpath "$1")
WT=/tmp/confirm-wt-$$
export CARGO_TARGET_DIR=/root/scratch/confirm-target
export CARGO_NET_OFFLINE=true
git -C /repo worktree add -q --detach "$WT" HEAD || exit 2
cp /repo/Cargo.lock "$WT"/
cd "$WT"
res() { echo "{\"applies\": $1, \"suite_passes_with_change\": $2, \"suite_summary\": \"$3\", \"demo_fails_with_change\": $4, \"demo_passes_without_change\": $5, \"repo_head\": \"$(git -C /repo rev-parse --short HEAD)\"}" > "$SEED/confirm.json"; cat "$SEED/confirm.json"; }
cleanup() { cd /; git -C /repo worktree remove --force "$WT"; }
if ! git apply --check "$SEED/patch.diff" 2>/dev/null; then res false false "" false false; cleanup; exit 1; fi
git apply "$SEED/patch.diff"
out=$(timeout 1500 cargo test --workspace --no-fail-fast --offline 2>&1)
passed=$(echo "$out" | grep -E "^test result" | awk '{s+=$4} END {print s+0}')
failed=$(echo "$out" | grep -E "^test result" | awk '{s+=$6} END {print s+0}')
nres=$(echo "$out" | grep -cE "^test result")
suite=false; [ "$failed" = "0" ] && [ "$nres" -ge 20 ] && suite=true
demo_with=false; demo_without=false
DEMO_PKG=${DEMO_PKG:-conformance-tests}
DEMO_DIR=${DEMO_DIR:-conformance-tests/tests}
DEMO_FEATURES=${DEMO_FEATURES:-}
if [ -f "$SEED/demo.rs" ]; then
  cp "$SEED/demo.rs" $DEMO_DIR/seed_demo_x.rs
  if ! timeout 900 cargo test -p $DEMO_PKG --test seed_demo_x --offline $DEMO_FEATURES >/tmp/demo_with_$$.log 2>&1; then demo_with=true; fi
  git apply -R "$SEED/patch.diff"
  if timeout 900 cargo test -p $DEMO_PKG --test seed_demo_x --offline $DEMO_FEATURES >/tmp/demo_without_$$.log 2>&1; then demo_without=true; fi
  rm -f /tmp/demo_with_$$.log /tmp/demo_without_$$.log
elif [ -f "$SEED/demo.sh" ]; then
  if ! timeout 600 bash "$SEED/demo.sh" "$WT" >/dev/null 2>&1; then demo_with=true; fi
  git apply -R "$SEED/patch.diff"
  if timeout 600 bash "$SEED/demo.sh" "$WT" >/dev/null 2>&1; then demo_without=true; fi
fi
res true $suite "passed=$passed failed=$failed" $demo_with $demo_without
cleanup
