#!/usr/bin/env python3
"""Regenerates /verif/MANIFEST.json from the table below (one entry per claimed property)."""
import json, os, subprocess

VERIF = os.path.dirname(os.path.dirname(os.path.abspath(__file__)))

# id -> (level, technique, level text, level note, design ref)
CLAIMED = {
    "C09": ("model_checking",
            "explicit-state exploration of host-call histories on the real Story (state = history), invalid call injected at every tree node, bounded bisimulation (lockstep) against the uninjected history",
            "Every node of the play tree (also inside a named flow) of every pool program x every kind of invalid call: the call must return Err and the instance must stay observationally equal (results, text, tags, choices, globals, visit counts, callback log, canonical save) on all continuations up to the depth bound. Exhaustive within the stated bounds; nothing is sampled.",
            "Trusted: the harness's observation function and canonicalisation (public getters + save_state); program pool is finite (hand-written feature programs + segment family). Hash-order nondeterminism is kept out of the pool (C03 owns it).",
            "DESIGN.md §5 C09"),
}

ALL = [f"C{i:02d}" for i in range(1, 21)]

def main():
    hooks = subprocess.run(["git", "-C", "/repo", "log", "--format=%H %s"], capture_output=True, text=True).stdout.splitlines()
    hook_commits = [l.split()[0] for l in hooks if " verif-hooks:" in l]
    checks = []
    for pid, (level, tech, text, note, ref) in CLAIMED.items():
        checks.append({
            "property_id": pid,
            "quick_cmd": f"./check {pid} --tier quick",
            "thorough_cmd": f"./check {pid} --tier thorough",
            "evidence_file": f"/verif/evidence/{pid}.json",
            "replay_cmd_template": f"./check {pid} --replay {{path}}",
            "engine": "vrun",
            "level_claimed": {"category": level, "text": text, "design_ref": ref},
            "level_note": note,
            "technique": tech,
        })
    na = [{"property_id": p, "reason": "check not built yet in this session (planned in DESIGN.md §5; the property is within reach of bounded exhaustive exploration)"} for p in ALL if p not in CLAIMED]
    m = {
        "version": 1,
        "setup_cmd": "./check --setup",
        "hooks": {
            "guard": "cargo feature `verif-hooks` on crate bladeink (runtime/Cargo.toml)",
            "enable": "the harness depends on bladeink = { path = \"/repo/runtime\", features = [\"verif-hooks\"] }; ./check rebuilds it from /repo's working tree",
            "baseline_off_cmd": "cd /repo && cargo test --workspace --no-fail-fast --offline",
            "source_commits": list(reversed(hook_commits)),
            "add_only": True,
        },
        "engines": [
            {"name": "vrun", "path": "/verif/harness", "serves_properties": sorted(CLAIMED.keys()),
             "kind_free_text": "Rust harness linking the real bladeink runtime (+verif-hooks) and bladeink-compiler: bounded exhaustive enumeration of programs, host-call histories, pause schedules and inputs; oracles are lockstep/bisimulation between real instances or small reference models; driver ./check rebuilds from /repo and filters known findings"},
        ],
        "checks": checks,
        "not_applicable": na,
        "notes": "Every check is bounded exhaustive exploration of the real implementation (model-checking family). Known genuine defects are listed in /verif/known_findings.json and printed as KNOWN-FINDING lines.",
    }
    json.dump(m, open(os.path.join(VERIF, "MANIFEST.json"), "w"), indent=1)
    print("wrote MANIFEST.json:", len(checks), "checks,", len(na), "not_applicable")

main()
