#!/usr/bin/env python3
"""Regenerates /verif/MANIFEST.json from the table below (one entry per claimed property)."""
import json, os, subprocess

VERIF = os.path.dirname(os.path.dirname(os.path.abspath(__file__)))

# id -> (level, technique, level text, level note, design ref)
CLAIMED = {
    "C09": ("model_checking",
            "explicit-state exploration of host-call histories on the real Story (state = history), invalid call injected at every tree node, bounded bisimulation (lockstep) against the uninjected history",
            "Every node of the play tree (also inside a named flow) of every pool program x every kind of invalid call: the call must return Err and the instance must stay observationally equal (results, text, tags, choices, globals, visit counts, callback log, canonical save) on all continuations up to the depth bound. Exhaustive within the stated bounds; nothing is sampled.",
            "Trusted: the harness's observation function and canonicalisation (public getters + save_state); program pool is finite (hand-written feature programs + segment family). Hash-order nondeterminism is kept out of the pool (C03 owns it).",
            "DESIGN.md §5 C09"),
    "C02": ("model_checking",
            "explicit-state exploration of host-call histories on the real Story; at every node A=history, B=history+save+load into a fresh Story (and load into itself); bounded bisimulation (lockstep) of A and B, never merged",
            "Every save point of every explored history (play, flow switch, path jump; inside functions/tunnels, with live threads, pending fallback choices, several flows, lists, RANDOM/shuffle state) of every pool and small corpus program: immediate observation incl. canonical re-save and all continuations up to the depth bound must be equal between the original and the restored story. Exhaustive within bounds.",
            "Trusted: observation function + canonicalisation (choice `index` cache dropped, observer order across variables normalised). Error states are not save points (errors are not part of a save by design). Programs with hash-order-dependent output are excluded (C03).",
            "DESIGN.md §5 C02"),
    "C14": ("exploration",
            "bounded exhaustive enumeration of story documents (corpus reference JSON, this compiler's output, hostile strings of length <= 2 over a 10-character alphabet injected at every text position, each in several serialisations) loaded by both loaders in one process (content trees compared) and played by both feature builds in separate processes (transcripts compared)",
            "Every document: both loader entry points must accept it and build identical content trees and versions (a document only one loader accepts is a disagreement), and the binary built with stream-json-parser must play it (all choice paths, depth 6) exactly like the default build. Serialisations: as emitted, every non-ASCII character as \\uXXXX with surrogate pairs, pretty-printed with spaces/tabs/CRLF, alternative float spellings.",
            "Trusted: the crate's container writer used to compare the two trees; top-level key order is kept as emitted (reordering is outside the enumerated space).",
            "DESIGN.md §5 C14"),
    "C16": ("model_checking",
            "explicit-state exploration of host-call histories with evaluate_function injected at every tree node; bounded bisimulation against the uninjected history; results compared with hand-computed expectations",
            "Every node of the history tree (mid-paragraph, at choice points, at the end, in a named flow, after a load-into-self, after a path jump) x every designated pure function x {once, twice} + refused calls: result as the Ink rules give it, repeatable, and the story's later behaviour (incl. path jumps that keep the call stack) unchanged apart from function visit counts.",
            "Trusted: the table of pure functions and their hand-computed results; behaviour-only comparison (no save text), function containers' counts excluded.",
            "DESIGN.md §5 C16"),
    "C17": ("model_checking",
            "explicit-state exploration of host-call histories (play, flows, host assignment, load-into-self, path jump, abandoned slice, errors) followed by reset_state; bounded bisimulation against a freshly constructed Story with the same seed; invariant check of choose_path_string(reset=true)",
            "After every explored history Reset must make the instance bisimilar (text, tags, choices, globals, counts, canonical save, callbacks of the still-attached observers/externals/handler) to Story::new with the same seed, for two setups (with and without error handler); a path jump with call-stack reset must keep globals and counts and leave exactly one thread with one call-stack element and no pending choice.",
            "Trusted: observation function; the harness clears its own callback log when reset_state returns Ok. A reset refused while a time-limited continue is unfinished is not judged here (C08).",
            "DESIGN.md §5 C17"),
    "C03": ("exploration",
            "bounded exhaustive enumeration of programs x all choice paths, each executed under every configuration: hash/rng entropy values through an LD_PRELOAD getrandom shim (one worker process per value), two in-process repeats, separate processes, debug and release builds; transcripts (full observation + canonical save) and compiled output compared for identity",
            "462 (quick) cases weighted as the property asks: 7 multi-origin list values with tied item values x 15 list expressions (LIST_MIN/MAX/RANDOM/VALUE/ALL/INVERT/RANGE, list-from-int, +-n, printing, comparisons, results stored and reused), shuffles, RANDOM/SEED_RANDOM, many globals, the base pool with and without flows, the segment family, and the corpus (repository compiler on the sources + reference JSON): every configuration must give the identical transcript and byte-identical compiled JSON. The reach of the entropy dimension is measured (probe map orders) and two processes with equal entropy are required to agree.",
            "Trusted: the shim owns getrandom/getentropy (std RandomState keys and rand::rng()); hash keys are enumerated over 8 (quick) / 32 (thorough) entropy values, not over all 2^128 keys; the debug build covers the tie/random/base cases in the quick tier.",
            "DESIGN.md §5 C03"),
    "C04": ("fault_enumeration",
            "bounded exhaustive enumeration of fault-prone programs (operator x operand pair x position, fault statements, every single-token edit of corpus sources that still compiles) x all choice paths x host-call probes at every node, executed on the real runtime in the release build and, in a second process, in the debug build (overflow checks on); oracles: no panic, 32-bit wrapping results, reset-replay, cross-profile transcript equality",
            "Every case is compiled by the repository's compiler and played along every choice path (depth <= 6) with and without handler; at every node save_state, save+load into a fresh story, a flow switch, path jumps and host function evaluation are probed. No call may panic; Int + - * and unary minus must print the 32-bit wrapping result; after an error reset_state + the same history replays like the first run; the debug build must produce the same transcript for every case in the debug set.",
            "Trusted: catch_unwind around every host call; the wrapping oracle is i32::wrapping_*; cases that exhaust the step fuel give no verdict. Quick tier: the debug set is all statement cases, all integer-operand expression cases and every 7th other case.",
            "DESIGN.md §5 C04"),
    "C05": ("model_checking",
            "lockstep exploration of two programs on the real runtime: this compiler's output vs the reference-compiled story of every corpus pair, all choice paths up to a depth bound / node cap, same seed and external stubs",
            "All 121 (source, reference .ink.json) pairs: story A = Compiler::compile(source) (includes resolved), story B = reference JSON; every choice path up to the depth bound (complete trees for the small stories, node cap for the large ones, reported per run) must give equal lines, tags, choices (text, tags, order), end status, error/warning counts and global variable values; the three shuffle stories are compared modulo the shuffle.",
            "Trusted: the runtime itself (both sides run on it, so a runtime defect cancels out) and the reference JSON files in the repository. Visit counts are not compared (container paths differ between compilers).",
            "DESIGN.md §5 C05"),
    "C06": ("fault_enumeration",
            "bounded exhaustive enumeration of compiler inputs (every single token edit incl. identifier edits, line edit and truncation of corpus sources; all token strings up to length 3-4 over Ink's punctuation/keywords; generated programs; hostile and deeply nested texts), each compiled in a watched worker process; oracles: termination, error line in range, accepted story loads, independent static resolution of every reference, compile-twice identity",
            "Every input must make the compiler return (a panic is caught in-process, an abort/stack overflow/hang by the parent's per-input watchdog and pinned to the exact input); an error that names a line names an existing line; every accepted story loads with Story::new and every divert, thread start, tunnel, function call, choice target, read count and divert-target literal in it resolves exactly (independent resolver over the JSON document, cross-checked against the runtime's content_at_path); compiling twice gives the same bytes.",
            "Trusted: the static resolver (calibrated: 0 dangling references on the reference-compiled corpus and on everything the compiler emits for the well-formed pool). Variable diverts are not statically checkable and are skipped. Open findings (validation gaps of this re-implemented compiler) are listed in known_findings.json by (reference kind, shape of the dangling path).",
            "DESIGN.md §5 C06"),
    "C18": ("exploration",
            "bounded exhaustive enumeration of (program, history kind) pairs, each executed as repeated create-play-drop cycles (and repeated play+reset / load-own-save on one instance) in a single-threaded worker process under a counting global allocator; the live byte count must be flat from the second cycle on",
            "Programs chosen by where diverts point (loops into the own knot/stitch/gather, conditionals and sequences re-joining, sibling and descendant diverts, variable diverts, tunnels, recursion, threads, choices held at drop time) + the pool, the segment family and the corpus, x 5 history kinds (first choices, last choices, flows + save + load into self and into a fresh story, play+reset loop, load-own-save loop): no growth of live heap bytes after the first cycle.",
            "Trusted: the counting allocator wrapper (exact, not sampled) and that cycle 1 absorbs all lazily initialised process state.",
            "DESIGN.md §5 C18"),
    "C20": ("exploration",
            "bounded exhaustive enumeration of (story, stdin script, mode) runs of the real rinklecate binary rebuilt from /repo, compared with the library driven by the same script; strict JSON stream parsing; compile mode compared byte for byte with the library's output",
            "Template story x every stdin script up to the length bound over a 14-entry alphabet (valid and out-of-range numbers, diverts to known/unknown/hostile paths, help, blank, quit, early end of input) x {plain, -j} (x -k), plus every hostile character (and pairs) at every text position of a story x scripts reaching every position: JSON-mode stdout is a stream of single-key objects of the documented kinds and its texts, tags, choices and issues equal the library's; plain-mode stdout equals the rendering of the library's events; compile mode writes exactly the library's output and reports compile errors with exit code, message, file and line.",
            "Trusted: serde_json's strict stream deserializer; the harness's replay of the documented input meanings on the library.",
            "DESIGN.md §5 C20"),
    "C19": ("exploration",
            "exhaustive walk of the object graph of every loaded story (corpus reference JSON, this compiler's output, compiled pool and segment family) with per-object and per-ordered-pair (tree distance bound) checks of the path algebra on the real Path/Object/Container code (exposed read-only through hook H4)",
            "Every runtime object: its reported path resolves from the root to that very object without approximation; path -> text -> parse is an equal path of the same relativity with the same hash; every content position (container path + index) is found again by pointer_at_path. Every ordered pair of objects within the distance bound: the relative path from a to b resolves from a to b, its text form parses back to an equal, equally hashing, equally rendering relative path, and the compact path string resolves to b.",
            "Trusted: object identity by Rc data pointer; pair checks take the first 1500 (quick) / 6000 (thorough) objects of a story in walk order (all objects get the per-object checks).",
            "DESIGN.md §5 C19"),
    "C08": ("model_checking",
            "exhaustive enumeration of pause schedules of continue_async under a virtual clock (hook H3) on the real Story: every single pause position of every line, pause after every step, all pairs per line (thorough); every public method probed at every pause point",
            "For every choice path of every pool program and every line on it: every pause placement in the stated class gives the same lines, tags, choices and the same final globals, counts, callback log (observers, externals bound unsafe and safe) and canonical save as unsliced play; at every pause point each public method is called once: state-changing calls must be refused, and a refused (or harmless) call must leave the rest of the sliced run unchanged.",
            "Trusted: hook H3 (pause after exactly k interpreter steps; the wall clock never fires). Schedules with 3+ pauses inside one line are not enumerated except the every-step schedule.",
            "DESIGN.md §5 C08"),
    "C10": ("model_checking",
            "exhaustive enumeration of all interleavings (merges) of two flows' host-operation sequences on the real Story, with projection oracle against each flow run alone; save+load, removal of the other flow and away-and-back injected at every interleaving point",
            "36 ordered pairs of disjoint flow scripts (lines/choices, tunnel+temps, thread, functions+glue+sequence, sticky loop with fallback, list variable) x {two named flows, default+named} x every pair of per-flow op sequences up to the bound x every merge x every injection point: each flow's transcript (results, text, tags, choices, own variables and counts) equals the one it produces alone.",
            "Trusted: the scripts are disjoint by construction and avoid the deliberately global turn counter and random state. Three flows are not enumerated.",
            "DESIGN.md §5 C10"),
    "C11": ("model_checking",
            "explicit-state exploration of host-call histories (continues, choices, observer add/remove, host assignment, reset, load) on the real Story; every op judged against a polling reference model (get_variable before/after + the host's registration list)",
            "Every history up to the depth bound over the stated alphabet, for every pool program with globals (assignments before/between/after line ends, in functions, tunnels, choice bodies, look-ahead that is committed or rewound): per completed continue each registered (observer, variable) is notified at most once, exactly once if the polled value changed, with the value polled after the continue; host assignments notify once and immediately; nothing else notifies; removal stops exactly that registration and never panics; registrations survive reset and load.",
            "Trusted: polling through get_variable as the reference; a variable whose value is unchanged may be notified 0 or 1 times.",
            "DESIGN.md §5 C11"),
    "C13": ("model_checking",
            "explicit-state exploration of all play paths (+ reset, refused continue, redirect) of programs with uniquely named raise points, with and without handler, against a raise model read off the delivered text",
            "8 raising programs (+2 with the constructor's version warning): warning on the first line, mid-story, in a condition, in choice bodies and choice text, twice in one line, across glue, inside functions and tunnels, error through a bad divert variable and through running out of content: every raise is delivered exactly once (handler log, or warnings/errors lists), no later continue re-delivers, an error makes that continue return Err without a handler and never with one, and stops the story until reset/redirect.",
            "Trusted: marker-and-raise-on-one-line model (committed or discarded together). Warnings without a handler are only accounted for in histories without reset.",
            "DESIGN.md §5 C13"),
}

ALL = [f"C{i:02d}" for i in range(1, 21)]

def main():
    hooks = subprocess.run(["git", "-C", "/repo", "log", "--format=%H %s"], capture_output=True, text=True).stdout.splitlines()
    hook_commits = [l.split()[0] for l in hooks if " verif-hooks:" in l]
    checks = []
    for pid, (level, tech, text, note, ref) in CLAIMED.items():
        checks.append({
            "property_id": pid,
            "quick_cmd": f"./check {pid} --tier quick",
            "thorough_cmd": f"./check {pid} --tier thorough",
            "evidence_file": f"/verif/evidence/{pid}.json",
            "replay_cmd_template": f"./check {pid} --replay {{path}}",
            "engine": "vrun",
            "level_claimed": {"category": level, "text": text, "design_ref": ref},
            "level_note": note,
            "technique": tech,
        })
    na = [{"property_id": p, "reason": "check not built yet in this session (planned in DESIGN.md §5; the property is within reach of bounded exhaustive exploration)"} for p in ALL if p not in CLAIMED]
    m = {
        "version": 1,
        "setup_cmd": "./check --setup",
        "hooks": {
            "guard": "cargo feature `verif-hooks` on crate bladeink (runtime/Cargo.toml)",
            "enable": "the harness depends on bladeink = { path = \"/repo/runtime\", features = [\"verif-hooks\"] }; ./check rebuilds it from /repo's working tree",
            "baseline_off_cmd": "cd /repo && cargo test --workspace --no-fail-fast --offline",
            "source_commits": list(reversed(hook_commits)),
            "add_only": True,
        },
        "engines": [
            {"name": "vrun", "path": "/verif/harness", "serves_properties": sorted(CLAIMED.keys()),
             "kind_free_text": "Rust harness linking the real bladeink runtime (+verif-hooks) and bladeink-compiler: bounded exhaustive enumeration of programs, host-call histories, pause schedules and inputs; oracles are lockstep/bisimulation between real instances or small reference models; driver ./check rebuilds from /repo and filters known findings"},
        ],
        "checks": checks,
        "not_applicable": na,
        "notes": "Every check is bounded exhaustive exploration of the real implementation (model-checking family). Known genuine defects are listed in /verif/known_findings.json and printed as KNOWN-FINDING lines.",
    }
    json.dump(m, open(os.path.join(VERIF, "MANIFEST.json"), "w"), indent=1)
    print("wrote MANIFEST.json:", len(checks), "checks,", len(na), "not_applicable")

main()
