#!/usr/bin/env python3
"""Regenerates /verif/MANIFEST.json from the table below (one entry per claimed property)."""
import json, os, subprocess

VERIF = os.path.dirname(os.path.dirname(os.path.abspath(__file__)))

# id -> (level, technique, level text, level note, design ref)
CLAIMED = {
    "C09": ("model_checking",
            "explicit-state exploration of host-call histories on the real Story (state = history), invalid call injected at every tree node, bounded bisimulation (lockstep) against the uninjected history",
            "Every node of the play tree (also inside a named flow) of every pool program x every kind of invalid call: the call must return Err and the instance must stay observationally equal (results, text, tags, choices, globals, visit counts, callback log, canonical save) on all continuations up to the depth bound. Exhaustive within the stated bounds; nothing is sampled.",
            "Trusted: the harness's observation function and canonicalisation (public getters + save_state); program pool is finite (hand-written feature programs + segment family). Hash-order nondeterminism is kept out of the pool (C03 owns it).",
            "DESIGN.md §5 C09"),
    "C02": ("model_checking",
            "explicit-state exploration of host-call histories on the real Story; at every node A=history, B=history+save+load into a fresh Story (and load into itself); bounded bisimulation (lockstep) of A and B, never merged",
            "Every save point of every explored history (play, flow switch, path jump; inside functions/tunnels, with live threads, pending fallback choices, several flows, lists, RANDOM/shuffle state) of every pool and small corpus program: immediate observation incl. canonical re-save and all continuations up to the depth bound must be equal between the original and the restored story. Exhaustive within bounds.",
            "Trusted: observation function + canonicalisation (choice `index` cache dropped, observer order across variables normalised). Error states are not save points (errors are not part of a save by design). Programs with hash-order-dependent output are excluded (C03).",
            "DESIGN.md §5 C02"),
    "C16": ("model_checking",
            "explicit-state exploration of host-call histories with evaluate_function injected at every tree node; bounded bisimulation against the uninjected history; results compared with hand-computed expectations",
            "Every node of the history tree (mid-paragraph, at choice points, at the end, in a named flow, after a load-into-self, after a path jump) x every designated pure function x {once, twice} + refused calls: result as the Ink rules give it, repeatable, and the story's later behaviour (incl. path jumps that keep the call stack) unchanged apart from function visit counts.",
            "Trusted: the table of pure functions and their hand-computed results; behaviour-only comparison (no save text), function containers' counts excluded.",
            "DESIGN.md §5 C16"),
    "C17": ("model_checking",
            "explicit-state exploration of host-call histories (play, flows, host assignment, load-into-self, path jump, abandoned slice, errors) followed by reset_state; bounded bisimulation against a freshly constructed Story with the same seed; invariant check of choose_path_string(reset=true)",
            "After every explored history Reset must make the instance bisimilar (text, tags, choices, globals, counts, canonical save, callbacks of the still-attached observers/externals/handler) to Story::new with the same seed, for two setups (with and without error handler); a path jump with call-stack reset must keep globals and counts and leave exactly one thread with one call-stack element and no pending choice.",
            "Trusted: observation function; the harness clears its own callback log when reset_state returns Ok. A reset refused while a time-limited continue is unfinished is not judged here (C08).",
            "DESIGN.md §5 C17"),
}

ALL = [f"C{i:02d}" for i in range(1, 21)]

def main():
    hooks = subprocess.run(["git", "-C", "/repo", "log", "--format=%H %s"], capture_output=True, text=True).stdout.splitlines()
    hook_commits = [l.split()[0] for l in hooks if " verif-hooks:" in l]
    checks = []
    for pid, (level, tech, text, note, ref) in CLAIMED.items():
        checks.append({
            "property_id": pid,
            "quick_cmd": f"./check {pid} --tier quick",
            "thorough_cmd": f"./check {pid} --tier thorough",
            "evidence_file": f"/verif/evidence/{pid}.json",
            "replay_cmd_template": f"./check {pid} --replay {{path}}",
            "engine": "vrun",
            "level_claimed": {"category": level, "text": text, "design_ref": ref},
            "level_note": note,
            "technique": tech,
        })
    na = [{"property_id": p, "reason": "check not built yet in this session (planned in DESIGN.md §5; the property is within reach of bounded exhaustive exploration)"} for p in ALL if p not in CLAIMED]
    m = {
        "version": 1,
        "setup_cmd": "./check --setup",
        "hooks": {
            "guard": "cargo feature `verif-hooks` on crate bladeink (runtime/Cargo.toml)",
            "enable": "the harness depends on bladeink = { path = \"/repo/runtime\", features = [\"verif-hooks\"] }; ./check rebuilds it from /repo's working tree",
            "baseline_off_cmd": "cd /repo && cargo test --workspace --no-fail-fast --offline",
            "source_commits": list(reversed(hook_commits)),
            "add_only": True,
        },
        "engines": [
            {"name": "vrun", "path": "/verif/harness", "serves_properties": sorted(CLAIMED.keys()),
             "kind_free_text": "Rust harness linking the real bladeink runtime (+verif-hooks) and bladeink-compiler: bounded exhaustive enumeration of programs, host-call histories, pause schedules and inputs; oracles are lockstep/bisimulation between real instances or small reference models; driver ./check rebuilds from /repo and filters known findings"},
        ],
        "checks": checks,
        "not_applicable": na,
        "notes": "Every check is bounded exhaustive exploration of the real implementation (model-checking family). Known genuine defects are listed in /verif/known_findings.json and printed as KNOWN-FINDING lines.",
    }
    json.dump(m, open(os.path.join(VERIF, "MANIFEST.json"), "w"), indent=1)
    print("wrote MANIFEST.json:", len(checks), "checks,", len(na), "not_applicable")

main()
