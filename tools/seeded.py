#!/usr/bin/env python3
"""seeded.py run <seed-id> [<prop> ...]   apply /verif/seeded/<seed-id>/patch.diff to /repo, run the quick checks,
                                           undo the patch straight afterwards; prints and records what was detected.
   seeded.py all                           every seed against the property it targets
Results are appended to /verif/seeded/RESULTS.json (kept under version control)."""
import json, os, subprocess, sys, time
VERIF = os.path.dirname(os.path.dirname(os.path.abspath(__file__)))
SEEDED = os.path.join(VERIF, "seeded")

def sh(cmd, **kw):
    return subprocess.run(cmd, shell=True, text=True, capture_output=True, **kw)

def run_seed(seed, props=None, tier="quick"):
    d = os.path.join(SEEDED, seed)
    meta = json.load(open(os.path.join(d, "meta.json")))
    props = props or [meta["property"]]
    st = sh("git -C /repo status --porcelain --untracked-files=no").stdout.strip()
    if st:
        print("refusing: /repo has uncommitted changes:\n" + st); return None
    ap = sh(f"git -C /repo apply {d}/patch.diff")
    if ap.returncode != 0:
        print(f"{seed}: patch does not apply: {ap.stderr.strip()}"); return {"seed": seed, "applies": False}
    out = {"seed": seed, "applies": True, "repo_head": sh("git -C /repo rev-parse --short HEAD").stdout.strip(), "checks": {}}
    try:
        for p in props:
            t0 = time.time()
            r = sh(f"./check {p} --tier {tier}", cwd=VERIF)
            classes = [l.strip()[7:] for l in r.stdout.splitlines() if l.strip().startswith("class:")]
            nviol = sum(1 for l in r.stdout.splitlines() if l.startswith("VIOLATION "))
            out["checks"][p] = {"exit": r.returncode, "violations": nviol, "classes": classes[:8], "wall_s": round(time.time() - t0, 1)}
            print(f"{seed} vs {p}: exit={r.returncode} violations={nviol} {classes[:3]}")
    finally:
        sh("git -C /repo checkout -- .")
    return out

def main():
    if len(sys.argv) < 2:
        print(__doc__); return 2
    results_path = os.path.join(SEEDED, "RESULTS.json")
    results = json.load(open(results_path)) if os.path.exists(results_path) else {}
    tier = os.environ.get("SEED_TIER", "quick")
    if sys.argv[1] == "all":
        seeds = sorted(s for s in os.listdir(SEEDED) if os.path.isfile(os.path.join(SEEDED, s, "meta.json")))
        jobs = [(s, None) for s in seeds]
    else:
        jobs = [(sys.argv[2], sys.argv[3:] or None)]
    for s, props in jobs:
        r = run_seed(s, props, tier)
        if r:
            key = s if tier == "quick" else f"{s}@{tier}"
            prev = results.get(key, {})
            if "checks" in prev and "checks" in r:
                prev["checks"].update(r["checks"]); r["checks"] = prev["checks"]
            results[key] = r
            json.dump(results, open(results_path, "w"), indent=1, sort_keys=True)
    return 0

sys.exit(main())
