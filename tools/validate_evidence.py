import json,sys,glob
import jsonschema
schema=json.load(open('/root/.vp/EVIDENCE.schema.json'))
man=json.load(open('/verif/MANIFEST.json'))
lev={c['property_id']:c['level_claimed']['category'] if isinstance(c.get('level_claimed'),dict) else c.get('level_claimed') for c in man['checks']}
for f in sorted(glob.glob('/verif/evidence/C*.json')):
    d=json.load(open(f))
    try:
        jsonschema.validate(d,schema); ok='valid'
    except Exception as e:
        ok='INVALID: '+str(e)[:200]
    pid=d['property_id']
    c=d['coverage']
    print(pid, d['tier'], d['level'], 'manifest:',lev.get(pid), ok, 'samples',len(c.get('samples',[])), 'exh',c.get('exhaustive'))
